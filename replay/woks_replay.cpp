// Native replay for C04/C16 (finding F1): the REAL text of tfhe_bootstrap_woKS / tfhe_bootstrap_woKS_FFT
// (the working-tree file is #included with the library's own TFHE_TEST_ENVIRONMENT selection mechanism),
// with blind-rotate-and-extract replaced by a recording fake.  Compiled with -fsanitize=address:
// a write past the scratch array aborts the process.  Oracle (from the property): barb/bara are the
// nearest integers of 2N*b, 2N*a_i; the test polynomial is constant mu; n entries are readable.
// usage: woks_replay <fft:0|1> <n> <N>       exit 0 = holds, 1 = violated, signal/abort = crash
#include <cstdio>
#include <cstdlib>
#include <cstring>
#include <cstdint>
#include <cassert>
#include <iostream>
#include "tfhe.h"
using namespace std;
#define TFHE_TEST_ENVIRONMENT 1
static int g_fail = 0;
static int32_t g_n, g_N; static Torus32 g_mu; static const LweSample *g_x;
typedef __int128 i128;
static bool nearest(uint32_t p, uint32_t M, int64_t r) {
    if (r < 0 || r >= (int64_t)M) return false;
    i128 h = ((i128)1) << 31, d1 = (i128)M * p - ((i128)r << 32), d2 = (i128)M * p - ((i128)M << 32);
    return (d1 <= h && d1 >= -h) || (r == 0 && d2 <= h && d2 >= -h);
}
template <class ROW>
static void fake_bre(LweSample *, const TorusPolynomial *v, const ROW *, const int32_t barb, const int32_t *bara, const int32_t n, const TGswParams *) {
    if (n != g_n) { printf("n passed on is %d, expected %d\n", n, g_n); g_fail = 1; }
    if (!nearest((uint32_t)g_x->b, 2u * g_N, barb)) { printf("barb=%d is not round(2N*b)\n", barb); g_fail = 1; }
    for (int32_t i = 0; i < n; i++) if (!nearest((uint32_t)g_x->a[i], 2u * g_N, bara[i])) { printf("bara[%d]=%d is not round(2N*a_i)\n", i, bara[i]); g_fail = 1; break; }
    for (int32_t i = 0; i < g_N; i++) if (v->coefsT[i] != g_mu) { printf("testvect[%d] != mu\n", i); g_fail = 1; break; }
}
#ifdef REPLAY_FFT
void tfhe_blindRotateAndExtract_FFT(LweSample *r, const TorusPolynomial *v, const TGswSampleFFT *bk, const int32_t barb, const int32_t *bara, const int32_t n, const TGswParams *p) { fake_bre(r, v, bk, barb, bara, n, p); }
#define INCLUDE_TFHE_BOOTSTRAP_WO_KS_FFT
#include REPLAY_SRC
#else
void tfhe_blindRotateAndExtract(LweSample *r, const TorusPolynomial *v, const TGswSample *bk, const int32_t barb, const int32_t *bara, const int32_t n, const TGswParams *p) { fake_bre(r, v, bk, barb, bara, n, p); }
#define INCLUDE_TFHE_BOOTSTRAP_WO_KS
#include REPLAY_SRC
#endif
int main(int argc, char **argv) {
    if (argc < 3) return 2;
    int32_t n = atoi(argv[1]), N = atoi(argv[2]);
    g_n = n; g_N = N; g_mu = 0x20000000;
    LweParams *ip = new_LweParams(n, 0., 0.);
    TLweParams *tp = new_TLweParams(N, 1, 0., 0.);
    TGswParams *gp = new_TGswParams(3, 7, tp);
    LweSample *x = new_LweSample(ip);
    srand(12345);
    for (int32_t i = 0; i < n; i++) x->a[i] = (Torus32)((uint32_t)rand() * 2654435761u);
    x->b = (Torus32)0x9E3779B9u;
    g_x = x;
    LweSample *res = new_LweSample(&tp->extracted_lweparams);
    // key object: only the three parameter pointers are read by the function under replay
#ifdef REPLAY_FFT
    LweBootstrappingKeyFFT *key = (LweBootstrappingKeyFFT *)calloc(1, sizeof(LweBootstrappingKeyFFT));
#else
    LweBootstrappingKey *key = (LweBootstrappingKey *)calloc(1, sizeof(LweBootstrappingKey));
#endif
    *(const LweParams **)&key->in_out_params = ip; *(const TGswParams **)&key->bk_params = gp; *(const TLweParams **)&key->accum_params = tp;
#ifdef REPLAY_FFT
    tfhe_bootstrap_woKS_FFT(res, key, g_mu, x);
#else
    tfhe_bootstrap_woKS(res, key, g_mu, x);
#endif
    return g_fail;
}
