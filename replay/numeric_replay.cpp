// Native replay for C13: calls the REAL functions of /repo/src/libtfhe/numeric-functions.cpp
// (this file is compiled together with that .cpp from the working tree) and compares with an
// oracle written from the property statement in 128-bit integers.
// usage: numeric_replay <fn> <phase|mu|x> <Msize>      exit 0 = holds, 1 = violated, signal = crash
#include <cstdio>
#include <cstdlib>
#include <cstring>
#include <cstdint>
#include "tfhe_core.h"
#include "numeric_functions.h"
typedef __int128 i128;
static bool within(i128 x) { i128 h = ((i128)1) << 31; return x <= h && x >= -h; }
static bool nearest(uint32_t p, uint32_t M, int64_t r) {
    if (r < 0 || r >= (int64_t)M) return false;
    i128 d1 = (i128)M * p - ((i128)r << 32);
    i128 d2 = (i128)M * p - ((i128)M << 32);
    return within(d1) || (r == 0 && within(d2));
}
static int check_phase(uint32_t p, uint32_t M) {
    int32_t Ms = (int32_t)M;
    int32_t r = modSwitchFromTorus32((Torus32)p, Ms);
    if (!nearest(p, M, r)) { printf("modSwitchFromTorus32(phase=%u, Msize=%u) = %d is not a nearest integer in [0,M)\n", p, M, r); return 1; }
    Torus32 ap = approxPhase((Torus32)p, Ms);
    Torus32 en = modSwitchToTorus32(r, Ms);
    if (ap != en) { printf("approxPhase(phase=%u, Msize=%u) = %d differs from modSwitchToTorus32(%d) = %d\n", p, M, ap, r, en); return 1; }
    return 0;
}
static int check_mu(int64_t mu, uint32_t M) {
    int32_t Ms = (int32_t)M;
    Torus32 T = modSwitchToTorus32((int32_t)mu, Ms);
    i128 d = (i128)(uint32_t)T * M - ((i128)mu << 32);
    if (d > (i128)M || d < -(i128)M) { printf("modSwitchToTorus32(mu=%lld, Msize=%u) = %d is not within one unit of mu*2^32/M\n", (long long)mu, M, T); return 1; }
    int32_t back = modSwitchFromTorus32(T, Ms);
    if (back != mu) { printf("modSwitchFromTorus32(modSwitchToTorus32(mu=%lld, M=%u)) = %d\n", (long long)mu, M, back); return 1; }
    if (approxPhase(T, Ms) != T) { printf("approxPhase moves grid point mu=%lld (M=%u)\n", (long long)mu, M); return 1; }
    return 0;
}
int main(int argc, char **argv) {
    if (argc < 2) return 2;
    if (!strcmp(argv[1], "phase") && argc >= 4) return check_phase((uint32_t)strtoull(argv[2], 0, 0), (uint32_t)strtoull(argv[3], 0, 0));
    if (!strcmp(argv[1], "mu") && argc >= 4) return check_mu(strtoll(argv[2], 0, 0), (uint32_t)strtoull(argv[3], 0, 0));
    if (!strcmp(argv[1], "sweep") && argc >= 3) {
        // boundary sweep for one M: phases around k*2^32/M and (k+1/2)*2^32/M, every mu (capped), plus a stride
        uint32_t M = (uint32_t)strtoull(argv[2], 0, 0);
        uint64_t cap = M < 70000 ? M : 70000;
        for (uint64_t k = 0; k <= cap; k++) {
            uint64_t kk = (M <= 70000) ? k : (k * (uint64_t)(M / cap));
            for (int half = 0; half < 2; half++) {
                i128 c = (((i128)kk * 2 + half) << 32) / (2 * (i128)M);
                for (int dlt = -2; dlt <= 2; dlt++) { uint32_t p = (uint32_t)(c + dlt); if (check_phase(p, M)) { printf("INPUT phase %u %u\n", p, M); return 1; } }
            }
            if (kk < M && check_mu((int64_t)kk, M)) { printf("INPUT mu %llu %u\n", (unsigned long long)kk, M); return 1; }
        }
        for (uint64_t p = 0; p < (1ull << 32); p += 65521) if (check_phase((uint32_t)p, M)) { printf("INPUT phase %u %u\n", (uint32_t)p, M); return 1; }
        return 0;
    }
    if (!strcmp(argv[1], "conv") && argc >= 3) {
        int32_t x = (int32_t)strtoll(argv[2], 0, 0);
        if (dtot32(t32tod(x)) != x) { printf("dtot32(t32tod(%d)) = %d\n", x, dtot32(t32tod(x))); return 1; }
        long k = argc >= 4 ? strtol(argv[3], 0, 0) : 1;
        if (dtot32(t32tod(x) + (double)k) != x) { printf("dtot32(t32tod(%d)+%ld) = %d\n", x, k, dtot32(t32tod(x) + (double)k)); return 1; }
        return 0;
    }
    if (!strcmp(argv[1], "convsweep")) {
        for (int64_t x = INT32_MIN; x <= INT32_MAX; x += 9973) {
            int32_t xx = (int32_t)x;
            if (dtot32(t32tod(xx)) != xx || dtot32(t32tod(xx) + 3.0) != xx || dtot32(t32tod(xx) - 1024.0) != xx) { printf("INPUT conv %d\n", xx); return 1; }
        }
        return 0;
    }
    return 2;
}
