// Native replay / input search for the blind-rotation loop (C04, C09): the REAL text of tfhe_blindRotate(_FFT) and tfhe_MuxRotate(_FFT)
// (working-tree file #included through the library's TFHE_TEST_ENVIRONMENT selection), on an exponent-tracking model of the three
// TLWE operations a CMux step is made of: every TLWE sample carries the exponent e of the monomial X^e its phase has been multiplied
// by; with all key bits = 1 a CMux step by `a` adds `a`.  Oracle (from the property): blind rotation multiplies the accumulator by
// X^(sum_i bara_i * s_i), i.e. e_final == e_initial + sum_i bara_i (mod 2N), the result ends in `accum`, the temporary is released.
// usage: blind_replay    exit 0 = holds, 1 = violated
#include <cstdio>
#include <cstdlib>
#include <cstring>
#include <cstdint>
#include <cassert>
#include <iostream>
#include <map>
#include <utility>
#include "tfhe.h"
using namespace std;
#define TFHE_TEST_ENVIRONMENT 1
static map<const TLweSample *, long> expo; static int live = 0; static const int NN = 8;
static TLweSample *fake_new(const TLweParams *) { TLweSample *p = (TLweSample *)calloc(1, sizeof(TLweSample)); live++; expo[p] = -999999; return p; }
static void fake_delete(TLweSample *p) { live--; expo.erase(p); free(p); }
#define new_TLweSample fake_new
#define delete_TLweSample fake_delete
static void fake_mulbyxaim1(TLweSample *result, int32_t a, const TLweSample *acc, const TLweParams *) { expo[result] = expo[acc] + a; }   // (X^a - 1)*acc, then BK_i (s_i = 1), then + acc  ==  X^a * acc
#define tLweMulByXaiMinusOne fake_mulbyxaim1
static void fake_ext_fft(TLweSample *, const TGswSampleFFT *, const TGswParams *) {}
static void fake_ext(TLweSample *, const TGswSample *, const TGswParams *) {}
#define tGswFFTExternMulToTLwe fake_ext_fft
#define tGswExternMulToTLwe fake_ext
static void fake_addto(TLweSample *result, const TLweSample *acc, const TLweParams *) { (void)result; (void)acc; }
#define tLweAddTo fake_addto
static void fake_copy(TLweSample *result, const TLweSample *s, const TLweParams *) { expo[result] = expo[s]; }
#define tLweCopy fake_copy
#ifdef REPLAY_FFT
#define INCLUDE_TFHE_BLIND_ROTATE_FFT
#include REPLAY_SRC
typedef TGswSampleFFT ROW;
#define BLIND tfhe_blindRotate_FFT
#else
#define INCLUDE_TFHE_BLIND_ROTATE
#include REPLAY_SRC
typedef TGswSample ROW;
#define BLIND tfhe_blindRotate
#endif
static uint64_t rs = 88172645463325252ull;
static uint32_t rnd() { rs ^= rs << 13; rs ^= rs >> 7; rs ^= rs << 17; return (uint32_t)(rs >> 11); }
int main() {
    TLweParams *tp = (TLweParams *)calloc(1, sizeof(TLweParams)); *(int32_t *)&tp->N = NN; *(int32_t *)&tp->k = 1;
    TGswParams *gp = (TGswParams *)calloc(1, sizeof(TGswParams)); *(const TLweParams **)&gp->tlwe_params = tp;
    for (int n = 0; n <= 13; n++) for (int rep = 0; rep < 400; rep++) {
        int32_t bara[16]; long sum = 0;
        for (int i = 0; i < n; i++) { uint32_t r = rnd() % 6; bara[i] = r == 0 ? 0 : r == 1 ? 2 * NN - 1 : r == 2 ? NN : (int32_t)(rnd() % (2 * NN)); if (rep < (1 << n) && n <= 8) bara[i] = ((rep >> i) & 1) ? 1 + (int32_t)(rnd() % (2 * NN - 1)) : 0; sum += bara[i]; }
        ROW *rows = (ROW *)calloc(n + 1, sizeof(ROW));
        TLweSample *acc = (TLweSample *)calloc(1, sizeof(TLweSample)); expo.clear(); expo[acc] = 5; live = 0;
        BLIND(acc, rows, bara, n, gp);
        long got = expo.count(acc) ? expo[acc] : -1;
        if (((got - 5 - sum) % (2 * NN)) != 0 || live != 0) {
            printf("blind rotation n=%d exponents=[", n); for (int i = 0; i < n; i++) printf("%d ", bara[i]);
            printf("]: accumulator multiplied by X^%ld, expected X^%ld (mod 2N=%d); live temporaries %d\n", got - 5, sum, 2 * NN, live); return 1; }
        free(acc); free(rows);
    }
    return 0;
}
