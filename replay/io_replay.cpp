// Native replay for C17: the whole REAL library (portable FFT) compiled from the working tree, small custom parameter sets and real keys.
// Oracle, from the property statement: (1) size(cloud export) = size of the parameter text + key-switching rows + bootstrapping rows,
// computed from the parameters and from the library's own separate exports of the text sections; (2) the cloud export is a strict prefix
// of the secret export; (3) neither the LWE key bits nor the ring key coefficients (as 32-bit words, as the library stores them) occur in
// the cloud export; (4) importing the cloud export consumes it exactly; both transports.      exit 0 = holds, 1 = violated
#include <cstdio>
#include <cstdlib>
#include <cstdint>
#include <cstring>
#include <sstream>
#include <string>
#include "tfhe.h"
#include "tfhe_io.h"
static std::string slurp(FILE *f) { std::string s; rewind(f); char buf[4096]; size_t r; while ((r = fread(buf, 1, sizeof buf, f)) > 0) s.append(buf, r); return s; }
static int one(int32_t n, int32_t N, int32_t k, int32_t l, int32_t Bgbit, int32_t ks_t, int32_t ks_bb, uint32_t seed) {
    LweParams *lp = new_LweParams(n, 0.001, 0.1); TLweParams *tp = new_TLweParams(N, k, 0.0001, 0.1); TGswParams *gp = new_TGswParams(l, Bgbit, tp);

    TFheGateBootstrappingParameterSet *ps = new TFheGateBootstrappingParameterSet(ks_t, ks_bb, lp, gp);
    uint32_t sd[2] = {seed, 42}; tfhe_random_generator_setSeed(sd, 2);
    TFheGateBootstrappingSecretKeySet *sk = new_random_gate_bootstrapping_secret_keyset(ps);
    std::ostringstream oc, os, op, ol, og, ob; 
    export_tfheGateBootstrappingCloudKeySet_toStream(oc, &sk->cloud); export_tfheGateBootstrappingSecretKeySet_toStream(os, sk);
    export_tfheGateBootstrappingParameterSet_toStream(op, ps); export_lweParams_toStream(ol, lp); export_tGswParams_toStream(og, gp);
    export_lweBootstrappingKey_toStream(ob, sk->cloud.bk);
    std::string C = oc.str(), S = os.str();
    char tag[160]; snprintf(tag, sizeof tag, "n=%d N=%d k=%d l=%d Bgbit=%d ks_t=%d ks_basebit=%d seed=%u", n, N, k, l, Bgbit, ks_t, ks_bb, seed);
    // (1) size: text sections measured through the library's own exports of those sections; binary sections from the parameters
    uint64_t ksrows = 4 + 8 + (uint64_t)(N * k) * ks_t * (1u << ks_bb) * (uint64_t)(n + 1) * 4;
    uint64_t bkrows = 4 + 8 + (uint64_t)n * (k + 1) * l * (k + 1) * (uint64_t)N * 4;
    uint64_t kstext = ob.str().size() - ol.str().size() - og.str().size() - ksrows - bkrows;     // the LWEKSPARAMS text of this key
    if (ob.str().size() < ol.str().size() + og.str().size() + ksrows + bkrows || kstext > 200) { printf("%s: bootstrapping-key export has %zu bytes, not parameter texts + %llu + %llu row bytes\n", tag, ob.str().size(), (unsigned long long)ksrows, (unsigned long long)bkrows); return 1; }
    if (C.size() != op.str().size() + kstext + ksrows + bkrows) { printf("%s: cloud export has %zu bytes, the parameters determine %llu\n", tag, C.size(), (unsigned long long)(op.str().size() + kstext + ksrows + bkrows)); return 1; }
    // (2) strict prefix
    if (!(C.size() < S.size() && S.compare(0, C.size(), C) == 0)) { printf("%s: cloud export (%zu bytes) is not a strict prefix of the secret export (%zu bytes)\n", tag, C.size(), S.size()); return 1; }
    if (S.size() != C.size() + 4 + 4 * (uint64_t)n + 4 + (uint64_t)k * 4 * N) { printf("%s: secret export is not cloud export + LWE key section + TGSW key section\n", tag); return 1; }
    // (3) no secret material, in the library's own encodings (int32 words; also one byte per bit and packed bits)
    std::string lk((const char *)sk->lwe_key->key, 4 * (size_t)n);
    if (n >= 8 && C.find(lk) != std::string::npos) { printf("%s: the LWE key words occur in the cloud export\n", tag); return 1; }
    for (int i = 0; i < k; i++) { std::string rk((const char *)sk->tgsw_key->key[i].coefs, 4 * (size_t)N); if (N >= 8 && C.find(rk) != std::string::npos) { printf("%s: ring key polynomial %d occurs in the cloud export\n", tag, i); return 1; } }
    std::string lb; for (int i = 0; i < n; i++) lb.push_back((char)sk->lwe_key->key[i]);
    if (n >= 32 && C.find(lb) != std::string::npos) { printf("%s: the LWE key bits (one byte per bit) occur in the cloud export\n", tag); return 1; }
    // (4) import consumes exactly the export; FILE transport gives the same bytes
    std::istringstream ic(C + "TRAILER"); TFheGateBootstrappingCloudKeySet *ck = new_tfheGateBootstrappingCloudKeySet_fromStream(ic);
    if (!ck || (uint64_t)ic.tellg() != C.size()) { printf("%s: cloud import consumed %lld bytes of a %zu-byte export\n", tag, (long long)ic.tellg(), C.size()); return 1; }
    FILE *f = tmpfile(); export_tfheGateBootstrappingCloudKeySet_toFile(f, &sk->cloud); std::string CF = slurp(f); fclose(f);
    if (CF != C) { printf("%s: FILE and stream transports export different bytes (%zu vs %zu)\n", tag, CF.size(), C.size()); return 1; }
    f = tmpfile(); export_tfheGateBootstrappingSecretKeySet_toFile(f, sk); std::string SF = slurp(f); fclose(f);
    if (SF != S) { printf("%s: FILE and stream transports export different secret bytes\n", tag); return 1; }
    return 0;
}
// C05 (binary layer): export -> import -> field-for-field equality of the binary content, variance semantics, byte-identical re-export.
// The noise parameters used are exactly representable with the 8 decimals the text writer prints, so the text layer is not what is tested.
static int roundtrip(int32_t n, int32_t N, int32_t k, int32_t l, int32_t Bgbit, int32_t ks_t, int32_t ks_bb, uint32_t seed) {
    LweParams *lp = new_LweParams(n, 0.001, 0.1); TLweParams *tp = new_TLweParams(N, k, 0.0001, 0.1); TGswParams *gp = new_TGswParams(l, Bgbit, tp);
    TFheGateBootstrappingParameterSet *ps = new TFheGateBootstrappingParameterSet(ks_t, ks_bb, lp, gp);
    uint32_t sd[2] = {seed, 43}; tfhe_random_generator_setSeed(sd, 2);
    TFheGateBootstrappingSecretKeySet *sk = new_random_gate_bootstrapping_secret_keyset(ps);
    char tag[160]; snprintf(tag, sizeof tag, "n=%d N=%d k=%d l=%d Bgbit=%d ks_t=%d ks_basebit=%d seed=%u", n, N, k, l, Bgbit, ks_t, ks_bb, seed);
    // distinct per-row variances so that "stored once as the maximum" is observable
    LweKeySwitchKey *ks = sk->cloud.bk->ks; double vmax_ks = -1, vmax_bk = -1;
    for (int i = 0; i < ks->n; i++) for (int j = 0; j < ks->t; j++) for (int h = 0; h < ks->base; h++) { double v = 1e-6 * (1 + ((i * 7 + j * 3 + h) % 11)); ks->ks[i][j][h].current_variance = v; if (v > vmax_ks) vmax_ks = v; }
    ks->ks[ks->n - 1][0][0].current_variance = vmax_ks = 5e-5;      /* the strict maximum sits in a digit-0 row */
    for (int i = 0; i < n; i++) for (int j = 0; j < gp->kpl; j++) { double v = 1e-7 * (1 + ((i * 5 + j) % 13)); sk->cloud.bk->bk[i].all_sample[j].current_variance = v; if (v > vmax_bk) vmax_bk = v; }
    std::ostringstream o1; export_tfheGateBootstrappingSecretKeySet_toStream(o1, sk);
    std::istringstream i1(o1.str()); TFheGateBootstrappingSecretKeySet *rk = new_tfheGateBootstrappingSecretKeySet_fromStream(i1);
    if ((uint64_t)i1.tellg() != o1.str().size()) { printf("%s: secret import consumed %lld of %zu bytes\n", tag, (long long)i1.tellg(), o1.str().size()); return 1; }
    if (memcmp(rk->lwe_key->key, sk->lwe_key->key, 4 * (size_t)n)) { printf("%s: LWE key differs after export/import\n", tag); return 1; }
    for (int i = 0; i < k; i++) if (memcmp(rk->tgsw_key->key[i].coefs, sk->tgsw_key->key[i].coefs, 4 * (size_t)N)) { printf("%s: ring key polynomial %d differs after export/import\n", tag, i); return 1; }
    const LweKeySwitchKey *rks = rk->cloud.bk->ks;
    if (rks->n != ks->n || rks->t != ks->t || rks->basebit != ks->basebit) { printf("%s: key-switching shape differs after export/import\n", tag); return 1; }
    for (int i = 0; i < ks->n; i++) for (int j = 0; j < ks->t; j++) for (int h = 0; h < ks->base; h++) {
        const LweSample &a = ks->ks[i][j][h], &b = rks->ks[i][j][h];
        if (memcmp(a.a, b.a, 4 * (size_t)n) || a.b != b.b) { printf("%s: key-switching row (%d,%d,%d) differs after export/import\n", tag, i, j, h); return 1; }
        if (b.current_variance != vmax_ks) { printf("%s: key-switching row (%d,%d,%d) comes back with variance %g, the maximum over the rows is %g\n", tag, i, j, h, b.current_variance, vmax_ks); return 1; } }
    for (int i = 0; i < n; i++) for (int j = 0; j < gp->kpl; j++) { const TLweSample &a = sk->cloud.bk->bk[i].all_sample[j], &b = rk->cloud.bk->bk[i].all_sample[j];
        for (int q = 0; q <= k; q++) if (memcmp(a.a[q].coefsT, b.a[q].coefsT, 4 * (size_t)N)) { printf("%s: bootstrapping row (%d,%d) polynomial %d differs after export/import\n", tag, i, j, q); return 1; }
        if (b.current_variance != vmax_bk) { printf("%s: bootstrapping row (%d,%d) comes back with variance %g, the maximum over the rows is %g\n", tag, i, j, b.current_variance, vmax_bk); return 1; } }
    std::ostringstream o2; export_tfheGateBootstrappingSecretKeySet_toStream(o2, rk);
    if (o2.str() != o1.str()) { printf("%s: re-export of the imported secret key set is not byte-identical (%zu vs %zu bytes)\n", tag, o2.str().size(), o1.str().size()); return 1; }
    { std::ostringstream c1; export_tfheGateBootstrappingCloudKeySet_toStream(c1, &sk->cloud); std::istringstream ci(c1.str());
      TFheGateBootstrappingCloudKeySet *ck = new_tfheGateBootstrappingCloudKeySet_fromStream(ci);
      if ((uint64_t)ci.tellg() != c1.str().size()) { printf("%s: cloud import consumed %lld of %zu bytes\n", tag, (long long)ci.tellg(), c1.str().size()); return 1; }
      std::ostringstream c2; export_tfheGateBootstrappingCloudKeySet_toStream(c2, ck);
      if (c2.str() != c1.str()) { printf("%s: re-export of the imported cloud key set is not byte-identical (%zu vs %zu bytes)\n", tag, c2.str().size(), c1.str().size()); return 1; } }
    // single objects: samples of each kind, with their own variance
    LweSample *s = new_LweSample(lp); for (int i = 0; i < n; i++) s->a[i] = 0x9e3779b9u * (i + 1); s->b = -77; s->current_variance = 1.0 / 3;
    std::ostringstream o3; export_lweSample_toStream(o3, s, lp); LweSample *t = new_LweSample(lp); std::istringstream i3(o3.str()); import_lweSample_fromStream(i3, t, lp);
    if (memcmp(s->a, t->a, 4 * (size_t)n) || s->b != t->b || s->current_variance != t->current_variance) { printf("%s: LWE sample differs after export/import\n", tag); return 1; }
    TLweSample *u = new_TLweSample(tp), *v = new_TLweSample(tp); for (int q = 0; q <= k; q++) for (int j = 0; j < N; j++) u->a[q].coefsT[j] = 0x85ebca6bu * (q * N + j + 1); u->current_variance = 2.0 / 7;
    std::ostringstream o4; export_tlweSample_toStream(o4, u, tp); std::istringstream i4(o4.str()); import_tlweSample_fromStream(i4, v, tp);
    for (int q = 0; q <= k; q++) if (memcmp(u->a[q].coefsT, v->a[q].coefsT, 4 * (size_t)N)) { printf("%s: TLWE sample polynomial %d differs after export/import\n", tag, q); return 1; }
    if (u->current_variance != v->current_variance) { printf("%s: TLWE sample variance differs after export/import\n", tag); return 1; }
    TGswSample *g1 = new_TGswSample(gp), *g2 = new_TGswSample(gp);
    for (int r = 0; r < gp->kpl; r++) { for (int q = 0; q <= k; q++) for (int j = 0; j < N; j++) g1->all_sample[r].a[q].coefsT[j] = 0xc2b2ae35u * ((r * (k + 1) + q) * N + j + 1); g1->all_sample[r].current_variance = 0.001 * (r + 1); }
    std::ostringstream o5; export_tgswSample_toStream(o5, g1, gp); std::istringstream i5(o5.str()); import_tgswSample_fromStream(i5, g2, gp);
    for (int r = 0; r < gp->kpl; r++) { for (int q = 0; q <= k; q++) if (memcmp(g1->all_sample[r].a[q].coefsT, g2->all_sample[r].a[q].coefsT, 4 * (size_t)N)) { printf("%s: TGSW sample row %d polynomial %d differs after export/import\n", tag, r, q); return 1; }
        if (g1->all_sample[r].current_variance != g2->all_sample[r].current_variance) { printf("%s: TGSW sample row %d variance differs after export/import\n", tag, r); return 1; } }
    return 0;
}
// C05 (text layer): parameter sets with the noise levels the property names come back field-for-field equal and re-export identically
static int textlayer() {
    static const double alphas[] = {0.1, 0.3, 0.5, 3.0517578125e-05 /*2^-15*/, 2.9802322387695312e-08 /*2^-25*/, 7.18e-9, 2.44e-5, 1e-12, 0.012467, 1.0 / 3};
    for (double a : alphas) for (double b : alphas) {
        LweParams *lp = new_LweParams(17, a, b); std::ostringstream o; export_lweParams_toStream(o, lp); std::istringstream i(o.str()); LweParams *r = new_lweParams_fromStream(i);
        if (r->n != lp->n || r->alpha_min != a || r->alpha_max != b) { printf("LweParams(n=17, alpha_min=%.17g, alpha_max=%.17g) comes back as (n=%d, %.17g, %.17g)\n", a, b, r->n, r->alpha_min, r->alpha_max); return 1; }
        std::ostringstream o2; export_lweParams_toStream(o2, r); if (o2.str() != o.str()) { printf("re-export of LweParams(alpha_min=%.17g) differs\n", a); return 1; }
        // the same object over the FILE transport (its own line reader): same bytes out, same object back
        char *mb = 0; size_t ml = 0; FILE *w = open_memstream(&mb, &ml); export_lweParams_toFile(w, lp); fclose(w);
        if (std::string(mb, ml) != o.str()) { printf("LweParams(alpha_min=%.17g): FILE export differs from the stream export\n", a); return 1; }
        FILE *rd = fmemopen(mb, ml, "rb"); LweParams *rf = new_lweParams_fromFile(rd); fclose(rd); free(mb);
        if (rf->n != lp->n || rf->alpha_min != a || rf->alpha_max != b) { printf("FILE transport: LweParams(n=17, alpha_min=%.17g, alpha_max=%.17g) comes back as (n=%d, %.17g, %.17g)\n", a, b, rf->n, rf->alpha_min, rf->alpha_max); return 1; }
    }
    for (int lambda : {80, 128}) {
        TFheGateBootstrappingParameterSet *p = new_default_gate_bootstrapping_parameters(lambda);
        std::ostringstream o; export_tfheGateBootstrappingParameterSet_toStream(o, p); std::istringstream i(o.str());
        TFheGateBootstrappingParameterSet *q = new_tfheGateBootstrappingParameterSet_fromStream(i);
        const TLweParams *t = p->tgsw_params->tlwe_params, *u = q->tgsw_params->tlwe_params;
        if (q->ks_t != p->ks_t || q->ks_basebit != p->ks_basebit || q->in_out_params->n != p->in_out_params->n || q->in_out_params->alpha_min != p->in_out_params->alpha_min || q->in_out_params->alpha_max != p->in_out_params->alpha_max
            || u->N != t->N || u->k != t->k || u->alpha_min != t->alpha_min || u->alpha_max != t->alpha_max || q->tgsw_params->l != p->tgsw_params->l || q->tgsw_params->Bgbit != p->tgsw_params->Bgbit) {
            printf("default parameter set for lambda=%d: exported and re-imported set differs (LWE alpha_min %.17g -> %.17g, TLWE alpha_min %.17g -> %.17g)\n", lambda, p->in_out_params->alpha_min, q->in_out_params->alpha_min, t->alpha_min, u->alpha_min); return 1; }
        std::ostringstream o2; export_tfheGateBootstrappingParameterSet_toStream(o2, q); if (o2.str() != o.str()) { printf("default parameter set for lambda=%d: re-export differs\n", lambda); return 1; }
    }
    return 0;
}
// standalone key objects of every shape through their own export / import (ASan build: an importer writing outside its destination is a finding)
static int standalone() {
    static const int shapes[][2] = {{64, 1}, {32, 2}, {16, 3}, {1, 2}};
    for (auto &sh : shapes) { int N = sh[0], k = sh[1];
        TLweParams *tp = new_TLweParams(N, k, 0.25, 0.5); TGswParams *gp = new_TGswParams(2, 8, tp);
        TLweKey *K = new_TLweKey(tp); for (int i = 0; i < k; i++) for (int j = 0; j < N; j++) K->key[i].coefs[j] = (i * 31 + j * 7) % 2;
        std::ostringstream o; export_tlweKey_toStream(o, K); std::istringstream in(o.str()); TLweKey *R = new_tlweKey_fromStream(in);
        for (int i = 0; i < k; i++) if (memcmp(K->key[i].coefs, R->key[i].coefs, 4 * (size_t)N)) { printf("TLWE key N=%d k=%d: polynomial %d differs after export/import\n", N, k, i); return 1; }
        TGswKey *G = new_TGswKey(gp); for (int i = 0; i < k; i++) for (int j = 0; j < N; j++) G->key[i].coefs[j] = (i * 13 + j * 5) % 2;
        std::ostringstream o2; export_tgswKey_toStream(o2, G); std::istringstream in2(o2.str()); TGswKey *H = new_tgswKey_fromStream(in2);
        for (int i = 0; i < k; i++) if (memcmp(G->key[i].coefs, H->key[i].coefs, 4 * (size_t)N)) { printf("TGSW key N=%d k=%d: polynomial %d differs after export/import\n", N, k, i); return 1; }
        delete_TLweKey(K); delete_TLweKey(R); delete_TGswKey(G); delete_TGswKey(H);
    }
    for (int n : {1, 7, 630}) { LweParams *lp = new_LweParams(n, 0.25, 0.5); LweKey *K = new_LweKey(lp); for (int j = 0; j < n; j++) K->key[j] = j % 2;
        std::ostringstream o; export_lweKey_toStream(o, K); std::istringstream in(o.str()); LweKey *R = new_lweKey_fromStream(in);
        if (memcmp(K->key, R->key, 4 * (size_t)n)) { printf("LWE key n=%d differs after export/import\n", n); return 1; } delete_LweKey(K); delete_LweKey(R); }
    return 0;
}
// C18 (binary sections): every binary object type, small shapes, no key generation: (a) the type tag replaced by every OTHER tag the library
// knows, (b) every proper prefix that ends inside the binary section.  Each import runs in a forked child; the oracle from the property statement:
// a mistyped or truncated input is never imported with a clean stream (the child must terminate abnormally, or the C++ stream must end up failed).
#include <unistd.h>
#include <sys/wait.h>
static const int32_t ALL_TAGS[] = {42, 84, 83, 168, 167, 43, 85, 169, 200, 201};
template <class F> static int accepted(const std::string &bytes, F import) {          // 1 = imported normally with a clean stream
    fflush(stdout); pid_t pid = fork();
    if (pid == 0) { fclose(stderr); std::istringstream in(bytes); import(in); _exit(in.fail() || in.bad() ? 3 : 0); }
    int st = 0; waitpid(pid, &st, 0); return WIFEXITED(st) && WEXITSTATUS(st) == 0;
}
template <class F> static int attack(const char *what, const std::string &good, size_t tagpos, F import) {
    int32_t own; memcpy(&own, good.data() + tagpos, 4);
    for (int32_t t : ALL_TAGS) if (t != own) { std::string b = good; memcpy(&b[tagpos], &t, 4); if (accepted(b, import)) { printf("%s: section with type tag %d (own tag %d) is imported normally with a clean stream\n", what, t, own); return 1; } }
    for (size_t len = tagpos + 1; len < good.size(); len += (good.size() - tagpos > 64 ? 13 : 1)) if (accepted(good.substr(0, len), import)) { printf("%s: truncated input (%zu of %zu bytes) is imported normally with a clean stream\n", what, len, good.size()); return 1; }
    if (!accepted(good, import)) { printf("%s: the unmodified export is not importable (oracle self-check)\n", what); return 1; }
    return 0;
}
// FILE transport: the import of a mistyped or truncated input must terminate the process (there is no stream state to inspect)
template <class F> static int accepted_file(const std::string &bytes, F import) {
    fflush(stdout); pid_t pid = fork();
    if (pid == 0) { fclose(stderr); FILE *f = fmemopen((void *)bytes.data(), bytes.size(), "rb"); if (!f) _exit(4); import(f); _exit(0); }
    int st = 0; waitpid(pid, &st, 0); return WIFEXITED(st) && WEXITSTATUS(st) == 0;
}
template <class F> static int attack_file(const char *what, const std::string &good, F import) {
    int32_t own; memcpy(&own, good.data(), 4);
    for (int32_t t : ALL_TAGS) if (t != own) { std::string b = good; memcpy(&b[0], &t, 4); if (accepted_file(b, import)) { printf("%s (FILE): section with type tag %d (own tag %d) is imported and the process goes on\n", what, t, own); return 1; } }
    for (size_t len = 1; len < good.size(); len++) if (accepted_file(good.substr(0, len), import)) { printf("%s (FILE): truncated input (%zu of %zu bytes) is imported and the process goes on\n", what, len, good.size()); return 1; }
    if (!accepted_file(good, import)) { printf("%s (FILE): the unmodified export is not importable (oracle self-check)\n", what); return 1; }
    return 0;
}
// text sections: every proper prefix of a pure-text export (every crash point of the writer), both transports
static int g_nl_only = 0;    // mode C18nl: only the prefix that lacks nothing but the final newline, C++ stream transport (recorded finding, reported separately)
template <class FS, class FF> static int text_prefixes(const char *what, const std::string &good, FS import_stream, FF import_file) {
    if (g_nl_only) { if (accepted(good.substr(0, good.size() - 1), import_stream)) { printf("%s: the text export without its final newline (%zu of %zu bytes) is imported normally, stream not failed (eofbit only)\n", what, good.size() - 1, good.size()); return 1; } return 0; }
    for (size_t len = 0; len < good.size(); len++) {
        if (len + 1 < good.size() && accepted(good.substr(0, len), import_stream)) { printf("%s: truncated text section (%zu of %zu bytes) is imported normally with a clean stream\n", what, len, good.size()); return 1; }
        if (accepted_file(good.substr(0, len), import_file)) { printf("%s (FILE): truncated text section (%zu of %zu bytes) is imported and the process goes on\n", what, len, good.size()); return 1; }
    }
    if (!accepted(good, import_stream) || !accepted_file(good, import_file)) { printf("%s: the unmodified text export is not importable (oracle self-check)\n", what); return 1; }
    return 0;
}
static size_t binpos(const std::string &s, int32_t tag) { for (size_t i = s.size() >= 4 ? s.size() - 4 : 0; ; i--) { int32_t v; memcpy(&v, s.data() + i, 4); if (v == tag && (i == 0 || s[i - 1] == '\n')) return i; if (i == 0) break; } return std::string::npos; }
static int mistyped() {
    LweParams *lp = new_LweParams(5, 0.25, 0.5); TLweParams *tp = new_TLweParams(8, 2, 0.25, 0.5); TGswParams *gp = new_TGswParams(2, 8, tp);
    LweSample *ls = new_LweSample(lp); for (int i = 0; i < 5; i++) ls->a[i] = 1000 + i; ls->b = 7; ls->current_variance = 0.5;
    TLweSample *ts = new_TLweSample(tp); for (int q = 0; q <= 2; q++) for (int j = 0; j < 8; j++) ts->a[q].coefsT[j] = 100 * q + j; ts->current_variance = 0.25;
    TGswSample *gs = new_TGswSample(gp); for (int r = 0; r < gp->kpl; r++) { for (int q = 0; q <= 2; q++) for (int j = 0; j < 8; j++) gs->all_sample[r].a[q].coefsT[j] = r * 1000 + q * 10 + j; gs->all_sample[r].current_variance = 0.125; }
    LweKey *lk = new_LweKey(lp); for (int i = 0; i < 5; i++) lk->key[i] = i % 2;
    TLweKey *tk = new_TLweKey(tp); TGswKey *gk = new_TGswKey(gp); for (int q = 0; q < 2; q++) for (int j = 0; j < 8; j++) tk->key[q].coefs[j] = gk->key[q].coefs[j] = (q + j) % 2;
    LweKeySwitchKey *ks = new_LweKeySwitchKey(3, 2, 1, lp); for (int i = 0; i < 3; i++) for (int j = 0; j < 2; j++) for (int h = 0; h < 2; h++) { for (int p = 0; p < 5; p++) ks->ks[i][j][h].a[p] = i * 100 + j * 10 + h + p; ks->ks[i][j][h].b = 5; ks->ks[i][j][h].current_variance = 0.01; }
    { std::ostringstream o; export_lweParams_toStream(o, lp); if (text_prefixes("LWE parameters", o.str(), [&](std::istream &in) { (void)new_lweParams_fromStream(in); }, [&](FILE *f) { (void)new_lweParams_fromFile(f); })) return 1; }
    { std::ostringstream o; export_tLweParams_toStream(o, tp); if (text_prefixes("TLWE parameters", o.str(), [&](std::istream &in) { (void)new_tLweParams_fromStream(in); }, [&](FILE *f) { (void)new_tLweParams_fromFile(f); })) return 1; }
    { std::ostringstream o; export_tGswParams_toStream(o, gp); if (text_prefixes("TGSW parameters", o.str(), [&](std::istream &in) { (void)new_tGswParams_fromStream(in); }, [&](FILE *f) { (void)new_tGswParams_fromFile(f); })) return 1; }
    if (g_nl_only) return 0;
    { std::ostringstream o; export_lweSample_toStream(o, ls, lp); LweSample *d = new_LweSample(lp); if (attack("LWE sample", o.str(), 0, [&](std::istream &in) { import_lweSample_fromStream(in, d, lp); })) return 1; }
    { std::ostringstream o; export_tlweSample_toStream(o, ts, tp); TLweSample *d = new_TLweSample(tp); if (attack("TLWE sample", o.str(), 0, [&](std::istream &in) { import_tlweSample_fromStream(in, d, tp); })) return 1; }
    { std::ostringstream o; export_lweSample_toStream(o, ls, lp); LweSample *d = new_LweSample(lp); if (attack_file("LWE sample", o.str(), [&](FILE *f) { import_lweSample_fromFile(f, d, lp); })) return 1; }
    { std::ostringstream o; export_tlweSample_toStream(o, ts, tp); TLweSample *d = new_TLweSample(tp); if (attack_file("TLWE sample", o.str(), [&](FILE *f) { import_tlweSample_fromFile(f, d, tp); })) return 1; }
    { std::ostringstream o; export_tgswSample_toStream(o, gs, gp); TGswSample *d = new_TGswSample(gp); if (attack("TGSW sample", o.str(), 0, [&](std::istream &in) { import_tgswSample_fromStream(in, d, gp); })) return 1; }
    { std::ostringstream o; export_lweKey_toStream(o, lk); std::string b = o.str(); size_t p = binpos(b, 43); if (p == std::string::npos) { printf("LWE key export: tag not found\n"); return 1; } if (attack("LWE key", b, p, [&](std::istream &in) { (void)new_lweKey_fromStream(in); })) return 1; }
    { std::ostringstream o; export_tlweKey_toStream(o, tk); std::string b = o.str(); size_t p = binpos(b, 85); if (p == std::string::npos) { printf("TLWE key export: tag not found\n"); return 1; } if (attack("TLWE key", b, p, [&](std::istream &in) { (void)new_tlweKey_fromStream(in); })) return 1; }
    { std::ostringstream o; export_tgswKey_toStream(o, gk); std::string b = o.str(); size_t p = binpos(b, 169); if (p == std::string::npos) { printf("TGSW key export: tag not found\n"); return 1; } if (attack("TGSW key", b, p, [&](std::istream &in) { (void)new_tgswKey_fromStream(in); })) return 1; }
    { std::ostringstream o; export_lweKeySwitchKey_toStream(o, ks); std::string b = o.str(); size_t p = std::string::npos; for (size_t i = 0; i + 4 <= b.size(); i++) { int32_t v; memcpy(&v, b.data() + i, 4); if (v == 200 && i > 0 && b[i - 1] == '\n') { p = i; break; } }
      if (p == std::string::npos) { printf("key-switching key export: tag not found\n"); return 1; } if (attack("key-switching key", b, p, [&](std::istream &in) { (void)new_lweKeySwitchKey_fromStream(in); })) return 1; }
    return 0;
}
int main(int argc, char **argv) {
    if (argc > 1 && !strcmp(argv[1], "C18nl")) { g_nl_only = 1; return mistyped(); }
    if (argc > 1 && !strcmp(argv[1], "C18")) return mistyped();
    if (!(argc > 1 && !strcmp(argv[1], "C05text")) && standalone()) return 1;
    if (argc > 1 && !strcmp(argv[1], "C05text")) return textlayer();
    if (argc > 1 && !strcmp(argv[1], "C05")) {
        static const int32_t sets[][7] = { {8, 1024, 1, 2, 4, 2, 1}, {5, 1024, 1, 3, 3, 3, 2}, {6, 1024, 2, 2, 5, 2, 1}, {1100, 1024, 1, 1, 8, 1, 1} };
        for (auto &s : sets) if (roundtrip(s[0], s[1], s[2], s[3], s[4], s[5], s[6], 7)) return 1;
        return 0;
    }
    static const int32_t sets[][7] = { {8, 1024, 1, 2, 4, 2, 1}, {5, 1024, 1, 3, 3, 3, 2}, {6, 1024, 2, 2, 5, 2, 1}, {33, 1024, 1, 1, 8, 1, 2}, {1100, 1024, 1, 1, 8, 1, 1} }   /* the FFT processors exist for N = 1024 only; the last set has n > k*N */;
    for (auto &s : sets) for (uint32_t seed = 1; seed <= 2; seed++) if (one(s[0], s[1], s[2], s[3], s[4], s[5], s[6], seed)) return 1;
    return 0;
}
