// Native replay for C19: the REAL selector (whole library compiled from the working tree), every lambda in [-5,300] plus INT32_MIN/MAX,
// each preceded by an optional earlier request (history), each in a forked child (the selector aborts for out-of-range lambda).
// Oracle: the documented sets (README table / property statement).   exit 0 = holds, 1 = violated
#include <cstdio>
#include <cstdlib>
#include <cstdint>
#include <cmath>
#include <unistd.h>
#include <sys/wait.h>
#include <climits>
#include "tfhe.h"
static int check(int32_t lambda, int32_t first) {
    pid_t pid = fork();
    if (pid == 0) {
        fclose(stderr);
        if (first > 0) (void)new_default_gate_bootstrapping_parameters(first);
        TFheGateBootstrappingParameterSet *P = new_default_gate_bootstrapping_parameters(lambda);
        const LweParams *in = P->in_out_params; const TGswParams *g = P->tgsw_params; const TLweParams *t = g->tlwe_params;
        bool ok;
        if (lambda >= 81) ok = in->n == 630 && in->alpha_min == ldexp(1., -15) && t->N == 1024 && t->k == 1 && t->alpha_min == ldexp(1., -25) && g->l == 3 && g->Bgbit == 7 && P->ks_t == 8 && P->ks_basebit == 2;
        else ok = in->n == 500 && in->alpha_min == 2.44e-5 && t->N == 1024 && t->k == 1 && t->alpha_min == 7.18e-9 && g->l == 2 && g->Bgbit == 10 && P->ks_t == 8 && P->ks_basebit == 2;
        ok = ok && g->l * g->Bgbit <= 32 && P->ks_t * P->ks_basebit <= 31 && t->extracted_lweparams.n == t->k * t->N && g->Bg == (1 << g->Bgbit) && g->halfBg == g->Bg / 2 && g->kpl == (t->k + 1) * g->l;
        _exit(ok ? 0 : 3);
    }
    int st = 0; waitpid(pid, &st, 0);
    bool in_range = lambda >= 1 && lambda <= 128;
    if (in_range) { if (!(WIFEXITED(st) && WEXITSTATUS(st) == 0)) { printf("lambda=%d (after an earlier request for %d): %s\n", lambda, first, WIFEXITED(st) ? "returned a set that differs from the documented one" : "aborted"); return 1; } }
    else if (WIFEXITED(st)) { printf("lambda=%d is out of range but the selector returned normally\n", lambda); return 1; }
    return 0;
}
int main() {
    int32_t firsts[] = {0, 1, 64, 80, 81, 100, 128};
    for (int32_t f : firsts) { for (int32_t l = -5; l <= 300; l++) if (check(l, f)) return 1; if (check(INT32_MIN, f) || check(INT32_MAX, f)) return 1; }
    return 0;
}
