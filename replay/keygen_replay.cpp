// Native replay for C07 (key generation): the REAL lweKeyGen / tLweKeyGen / tGswKeyGen over many seeds.
// Oracle from the property statement: keys are binary; every POSITION is balanced over seeds and every key is balanced over positions, with
// acceptance regions of 8 estimator standard deviations (false-alarm probability < 1e-14 per statistic); same seed -> same key, different
// seeds -> different keys.     usage: keygen_replay lwe|tlwe|tgsw      exit 0 = holds, 1 = violated
#include <cstdio>
#include <cstdlib>
#include <cstring>
#include <cmath>
#include <vector>
#include "tfhe.h"
static int run(const char *kind, int n, int k) {
    const int S = 600; std::vector<int> ones((size_t)n * k, 0); std::vector<int32_t> first, again; long total = 0;
    LweParams *lp = new_LweParams(n, 0., 0.); TLweParams *tp = new_TLweParams(n, k, 0., 0.); TGswParams *gp = new_TGswParams(2, 8, tp);
    for (int s = 1; s <= S + 1; s++) {
        uint32_t sd[2] = {(uint32_t)(s <= S ? s : 1), 77}; tfhe_random_generator_setSeed(sd, 2);
        std::vector<int32_t> key;
        if (!strcmp(kind, "lwe")) { LweKey *K = new_LweKey(lp); lweKeyGen(K); key.assign(K->key, K->key + n); delete_LweKey(K); }
        else if (!strcmp(kind, "tlwe")) { TLweKey *K = new_TLweKey(tp); tLweKeyGen(K); for (int i = 0; i < k; i++) key.insert(key.end(), K->key[i].coefs, K->key[i].coefs + n); delete_TLweKey(K); }
        else { TGswKey *K = new_TGswKey(gp); tGswKeyGen(K); for (int i = 0; i < k; i++) key.insert(key.end(), K->key[i].coefs, K->key[i].coefs + n); delete_TGswKey(K); }
        if (s == 1) first = key;
        if (s == S + 1) { if (key != first) { printf("%s n=%d k=%d: re-seeding with the same seed gives a different key\n", kind, n, k); return 1; } break; }
        if (s == 2 && key == first) { printf("%s n=%d k=%d: two different seeds give the same key\n", kind, n, k); return 1; }
        long w = 0;
        for (size_t j = 0; j < key.size(); j++) { if (key[j] != 0 && key[j] != 1) { printf("%s n=%d k=%d seed=%d: key coefficient %zu is %d, not a bit\n", kind, n, k, s, j, key[j]); return 1; } ones[j] += key[j]; w += key[j]; }
        double sig = sqrt(key.size() * 0.25);
        if (key.size() >= 256 && fabs(w - key.size() * 0.5) > 8 * sig) { printf("%s n=%d k=%d seed=%d: %ld ones in %zu coefficients (8 sigma = %.0f)\n", kind, n, k, s, w, key.size(), 8 * sig); return 1; }
        total += w;
    }
    double sig = sqrt(S * 0.25);
    for (size_t j = 0; j < ones.size(); j++) if (fabs(ones[j] - S * 0.5) > 8 * sig) { printf("%s n=%d k=%d: position %zu is 1 in %d of %d keys (allowed %d +- %.0f): not a fresh balanced bit\n", kind, n, k, j, ones[j], S, S / 2, 8 * sig); return 1; }
    double tot = (double)S * ones.size();
    if (fabs(total - tot * 0.5) > 8 * sqrt(tot * 0.25)) { printf("%s n=%d k=%d: pooled %ld ones in %.0f coefficients\n", kind, n, k, total, tot); return 1; }
    return 0;
}
// re-seeding: after ANY number of earlier draws, the same seed gives the same gaussian samples and the same ciphertexts
static int reseed() {
    LweParams *lp = new_LweParams(16, 0.001, 0.1); LweKey *K = new_LweKey(lp); uint32_t s0[2] = {5, 6}; tfhe_random_generator_setSeed(s0, 2); lweKeyGen(K);
    LweSample *c1 = new_LweSample(lp), *c2 = new_LweSample(lp);
    for (int pre = 0; pre <= 3; pre++) {
        uint32_t sd[2] = {11, 22};
        tfhe_random_generator_setSeed(sd, 2); Torus32 g1[4]; for (int i = 0; i < 4; i++) g1[i] = gaussian32(0, 0.01); lweSymEncrypt(c1, 12345, 0.001, K);
        for (int i = 0; i < pre; i++) (void)gaussian32(0, 0.01);             // an odd or even number of further draws
        tfhe_random_generator_setSeed(sd, 2); Torus32 g2[4]; for (int i = 0; i < 4; i++) g2[i] = gaussian32(0, 0.01); lweSymEncrypt(c2, 12345, 0.001, K);
        if (memcmp(g1, g2, sizeof g1)) { printf("re-seeding after %d extra gaussian draw(s): the same seed gives different gaussian samples\n", pre); return 1; }
        if (c1->b != c2->b || memcmp(c1->a, c2->a, 16 * sizeof(Torus32))) { printf("re-seeding after %d extra gaussian draw(s): the same seed gives a different ciphertext\n", pre); return 1; }
    }
    return 0;
}
int main(int argc, char **argv) {
    if (argc > 1 && !strcmp(argv[1], "reseed")) return reseed();
    const char *kind = argc > 1 ? argv[1] : "lwe";
    if (!strcmp(kind, "lwe")) return run(kind, 630, 1) || run(kind, 37, 1);
    return run(kind, 1024, 1) || run(kind, 64, 2) || run(kind, 33, 3);
}
