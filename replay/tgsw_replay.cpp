// Native replay for C03 (TGSW): the whole REAL library (portable FFT, N = 1024), several parameter sets used one after the other IN ONE PROCESS
// (Msize in the outer loop, parameter sets in the inner one, so that consecutive calls share Msize and l but not Bgbit).
// Oracle from the property statement: decrypting a noiseless trivial TGSW sample, and a fresh encryption with small noise, returns the message
// polynomial exactly, for Msize a power of two <= Bg.         exit 0 = holds, 1 = violated
#include <cstdio>
#include <cstdlib>
#include <cstdint>
#include "tfhe.h"
int main() {
    const int N = 1024; static const int sets[][3] = {{1, 3, 10}, {1, 3, 7}, {1, 2, 10}, {1, 3, 7}, {2, 2, 8}, {2, 2, 10}};   // (k, l, Bgbit)
    TLweParams *tp[6]; TGswParams *gp[6]; TGswKey *key[6];
    uint32_t sd[2] = {3, 4}; tfhe_random_generator_setSeed(sd, 2);
    for (int s = 0; s < 6; s++) { tp[s] = new_TLweParams(N, sets[s][0], 1e-9, 0.1); gp[s] = new_TGswParams(sets[s][1], sets[s][2], tp[s]); key[s] = new_TGswKey(gp[s]); tGswKeyGen(key[s]); }
    // TLWE: constant and polynomial messages on the grid k/Msize, fresh encryptions with small noise and noiseless trivial samples
    for (int s = 0; s < 6; s++) for (int Msize : {2, 3, 6, 7, 8, 12, 1000}) {
        const TLweKey *tk = &key[s]->tlwe_key; TLweSample *c = new_TLweSample(tp[s]); TorusPolynomial *mu = new_TorusPolynomial(N), *out = new_TorusPolynomial(N);
        for (int j = 0; j < N; j++) mu->coefsT[j] = modSwitchToTorus32((j * 5 + s) % Msize, Msize);
        tLweSymEncrypt(c, mu, 1e-9, tk); tLweSymDecrypt(out, c, tk, Msize);
        for (int j = 0; j < N; j++) if (out->coefsT[j] != mu->coefsT[j]) { printf("TLWE k=%d Msize=%d: coefficient %d of a fresh encryption decrypts to %d, message %d\n", sets[s][0], Msize, j, out->coefsT[j], mu->coefsT[j]); return 1; }
        for (int m = 0; m < Msize && m < 16; m++) { Torus32 m1 = modSwitchToTorus32(Msize > 16 ? (m * 61 + 1) % Msize : m, Msize); tLweSymEncryptT(c, m1, 1e-9, tk);
            if (tLweSymDecryptT(c, tk, Msize) != m1) { printf("TLWE k=%d Msize=%d: constant message %d does not decrypt to itself\n", sets[s][0], Msize, m1); return 1; } }
        tLweNoiselessTrivial(c, mu, tp[s]); tLweSymDecrypt(out, c, tk, Msize);
        for (int j = 0; j < N; j++) if (out->coefsT[j] != mu->coefsT[j]) { printf("TLWE k=%d Msize=%d: noiseless trivial sample, coefficient %d decrypts to %d, message %d\n", sets[s][0], Msize, j, out->coefsT[j], mu->coefsT[j]); return 1; }
        delete_TLweSample(c); delete_TorusPolynomial(mu); delete_TorusPolynomial(out);
    }
    IntPolynomial *msg = new_IntPolynomial(N), *dec = new_IntPolynomial(N);
    for (int Msize : {2, 4, 8, 64}) for (int rep = 0; rep < 2; rep++) for (int s = 0; s < 6; s++) {
        if (Msize > (1 << sets[s][2])) continue;
        for (int j = 0; j < N; j++) msg->coefs[j] = (j * 7 + s + rep) % Msize;
        TGswSample *c = new_TGswSample(gp[s]);
        if (rep == 0) tGswNoiselessTrivial(c, msg, gp[s]); else tGswSymEncrypt(c, msg, 1e-9, key[s]);
        tGswSymDecrypt(dec, c, key[s], Msize);
        for (int j = 0; j < N; j++) { int d = ((dec->coefs[j] % Msize) + Msize) % Msize; if (d != msg->coefs[j]) {
            printf("TGSW %s, k=%d l=%d Bgbit=%d Msize=%d (after a call with another parameter set in the same process): coefficient %d decrypts to %d, message %d\n",
                   rep == 0 ? "noiseless trivial sample" : "fresh encryption", sets[s][0], sets[s][1], sets[s][2], Msize, j, d, msg->coefs[j]); return 1; } }
        delete_TGswSample(c);
    }
    return 0;
}
