// Native replay / input search for C14, C11, C12, C08, C01: calls the REAL library functions (compiled from the working
// tree) on boundary-heavy pseudo-random inputs over many dimensions and compares with oracles written from the
// property statements in 64-bit arithmetic.  usage: linear_replay <function> ;  exit 0 = holds, 1 = violated (input printed).
#include <cstdio>
#include <cstdlib>
#include <cstring>
#include <cstdint>
#include <vector>
#include <string>
#include "tfhe.h"
using namespace std;
extern "C" void tLweNoiselessTrivialT(TLweSample *result, const Torus32 mu, const TLweParams *params);
static uint64_t rs = 88172645463325252ull;
static uint32_t rnd() { rs ^= rs << 13; rs ^= rs >> 7; rs ^= rs << 17; return (uint32_t)(rs >> 11); }
static int32_t val() { uint32_t r = rnd(); switch (r % 9) { case 0: return INT32_MIN; case 1: return INT32_MAX; case 2: return 0; case 3: return -1; case 4: return 1; default: return (int32_t)rnd(); } }
static const int DIMS[] = {1, 2, 3, 5, 7, 8, 9, 15, 16, 17, 31, 33, 64, 500, 630, 1023, 1024, 1025};
static const int32_t PS[] = {0, 1, -1, 2, -2, 3, 7, -181, 32767, -32767, 65536, INT32_MIN, INT32_MAX, 123456789};
#define FAIL(...) do { printf(__VA_ARGS__); printf("\n"); return 1; } while (0)
#define U(x) ((uint32_t)(x))

static int lwe(const string &f) {
    for (int n : DIMS) for (int32_t p : PS) {
        LweParams *par = new_LweParams(n, 0., 0.); LweSample *r = new_LweSample(par), *s = new_LweSample(par);
        vector<int32_t> r0(n), s0(n);
        for (int i = 0; i < n; i++) { r->a[i] = r0[i] = val(); s->a[i] = s0[i] = val(); }
        int32_t rb = r->b = val(), sb = s->b = val(); double rv = r->current_variance = 0.25, sv = s->current_variance = 0.5;
        int32_t mu = val();
        if (f == "lweClear") lweClear(r, par); else if (f == "lweCopy") lweCopy(r, s, par); else if (f == "lweNegate") lweNegate(r, s, par);
        else if (f == "lweNoiselessTrivial") lweNoiselessTrivial(r, mu, par); else if (f == "lweAddTo") lweAddTo(r, s, par);
        else if (f == "lweSubTo") lweSubTo(r, s, par); else if (f == "lweAddMulTo") lweAddMulTo(r, p, s, par); else if (f == "lweSubMulTo") lweSubMulTo(r, p, s, par);
        else return 2;
        for (int i = 0; i <= n; i++) {
            uint32_t o = U(i < n ? r0[i] : rb), x = U(i < n ? s0[i] : sb), got = U(i < n ? r->a[i] : r->b), e;
            if (f == "lweClear") e = 0; else if (f == "lweCopy") e = x; else if (f == "lweNegate") e = 0u - x;
            else if (f == "lweNoiselessTrivial") e = i < n ? 0 : U(mu); else if (f == "lweAddTo") e = o + x; else if (f == "lweSubTo") e = o - x;
            else if (f == "lweAddMulTo") e = o + U(p) * x; else e = o - U(p) * x;
            if (got != e) FAIL("%s: n=%d p=%d coordinate %d%s: got %u expected %u", f.c_str(), n, p, i, i == n ? " (b)" : "", got, e);
            if (i < n && s->a[i] != s0[i]) FAIL("%s: n=%d input sample modified at %d", f.c_str(), n, i);
        }
        double ev = (f == "lweClear" || f == "lweNoiselessTrivial") ? 0. : (f == "lweCopy" || f == "lweNegate") ? sv : (f == "lweAddTo" || f == "lweSubTo") ? rv + sv : rv + (double)p * (double)p * sv;
        if ((p > -32768 && p < 32768) && r->current_variance != ev) FAIL("%s: n=%d p=%d variance got %g expected %g", f.c_str(), n, p, r->current_variance, ev);
        if (f == "lweNegate" || f == "lweCopy") {      /* in-place use: result and sample are the same object */
            for (int i = 0; i < n; i++) r->a[i] = r0[i]; r->b = rb; r->current_variance = rv;
            if (f == "lweNegate") lweNegate(r, r, par); else lweCopy(r, r, par);
            for (int i = 0; i <= n; i++) { uint32_t o = U(i < n ? r0[i] : rb), got = U(i < n ? r->a[i] : r->b), e = f == "lweNegate" ? 0u - o : o;
                if (got != e) FAIL("%s in place (result == sample): n=%d coordinate %d: got %u expected %u", f.c_str(), n, i, got, e); }
            if (r->current_variance != rv) FAIL("%s in place: variance not preserved", f.c_str());
        }
        delete_LweSample(r); delete_LweSample(s); delete_LweParams(par);
    }
    return 0;
}
static uint32_t xai(const vector<int32_t> &in, int N, int a, int g) { long q = (long)g - a; return q >= 0 ? U(in[q]) : q >= -(long)N ? 0u - U(in[q + N]) : U(in[q + 2 * N]); }
static int poly(const string &f) {
    for (int N : DIMS) for (int32_t p : PS) {
        TorusPolynomial *r = new_TorusPolynomial(N), *a = new_TorusPolynomial(N), *b = new_TorusPolynomial(N);
        IntPolynomial *ir = new_IntPolynomial(N), *ia = new_IntPolynomial(N);
        vector<int32_t> r0(N), a0(N), b0(N);
        for (int i = 0; i < N; i++) { r->coefsT[i] = ir->coefs[i] = r0[i] = val(); a->coefsT[i] = ia->coefs[i] = a0[i] = val(); b->coefsT[i] = b0[i] = val(); }
        vector<int> exps; if (f.find("Xai") != string::npos) { for (int e : {0, 1, N - 1, N, N + 1, 2 * N - 1, N / 2, N + N / 2}) if (e >= 0 && e < 2 * N) exps.push_back(e); for (int t = 0; t < 4; t++) exps.push_back(rnd() % (2 * N)); } else exps.push_back(0);
        for (int ex : exps) {
            if (f == "torusPolynomialClear") torusPolynomialClear(r); else if (f == "torusPolynomialCopy") torusPolynomialCopy(r, a);
            else if (f == "torusPolynomialAdd") torusPolynomialAdd(r, a, b); else if (f == "torusPolynomialAddTo") torusPolynomialAddTo(r, b);
            else if (f == "torusPolynomialSub") torusPolynomialSub(r, a, b); else if (f == "torusPolynomialSubTo") torusPolynomialSubTo(r, b);
            else if (f == "torusPolynomialAddMulZ") torusPolynomialAddMulZ(r, a, p, b); else if (f == "torusPolynomialAddMulZTo") torusPolynomialAddMulZTo(r, p, b);
            else if (f == "torusPolynomialSubMulZ") torusPolynomialSubMulZ(r, a, p, b); else if (f == "torusPolynomialSubMulZTo") torusPolynomialSubMulZTo(r, p, b);
            else if (f == "torusPolynomialMulByXai") torusPolynomialMulByXai(r, ex, a); else if (f == "torusPolynomialMulByXaiMinusOne") torusPolynomialMulByXaiMinusOne(r, ex, a);
            else if (f == "intPolynomialMulByXaiMinusOne") intPolynomialMulByXaiMinusOne(ir, ex, ia); else if (f == "intPolynomialClear") intPolynomialClear(ir);
            else if (f == "intPolynomialCopy") intPolynomialCopy(ir, ia); else if (f == "intPolynomialAddTo") intPolynomialAddTo(ir, ia); else return 2;
            for (int i = 0; i < N; i++) {
                uint32_t o = U(r0[i]), x = U(a0[i]), y = U(b0[i]), e, got = f[0] == 'i' ? U(ir->coefs[i]) : U(r->coefsT[i]);
                if (f == "torusPolynomialClear" || f == "intPolynomialClear") e = 0; else if (f == "torusPolynomialCopy" || f == "intPolynomialCopy") e = x;
                else if (f == "torusPolynomialAdd") e = x + y; else if (f == "torusPolynomialAddTo") e = o + y; else if (f == "torusPolynomialSub") e = x - y;
                else if (f == "torusPolynomialSubTo") e = o - y; else if (f == "torusPolynomialAddMulZ") e = x + U(p) * y; else if (f == "torusPolynomialAddMulZTo") e = o + U(p) * y;
                else if (f == "torusPolynomialSubMulZ") e = x - U(p) * y; else if (f == "torusPolynomialSubMulZTo") e = o - U(p) * y;
                else if (f == "torusPolynomialMulByXai") e = xai(a0, N, ex, i); else if (f == "intPolynomialAddTo") e = o + x; else e = xai(a0, N, ex, i) - x;
                if (got != e) FAIL("%s: N=%d p=%d a=%d coefficient %d: got %u expected %u", f.c_str(), N, p, ex, i, got, e);
                if (a->coefsT[i] != a0[i] || b->coefsT[i] != b0[i] || ia->coefs[i] != a0[i]) FAIL("%s: N=%d input modified at %d", f.c_str(), N, i);
            }
            for (int i = 0; i < N; i++) { r->coefsT[i] = ir->coefs[i] = r0[i]; }
        }
        delete_TorusPolynomial(r); delete_TorusPolynomial(a); delete_TorusPolynomial(b); delete_IntPolynomial(ir); delete_IntPolynomial(ia);
    }
    return 0;
}
static int extract(const string &f) {
    for (int N : {1, 2, 3, 4, 8, 16, 17, 64}) for (int k : {1, 2, 3}) {
        TLweParams *tp = new_TLweParams(N, k, 0., 0.); TLweSample *x = new_TLweSample(tp); LweSample *r = new_LweSample(&tp->extracted_lweparams);
        TLweKey *tk = new_TLweKey(tp); LweKey *lk = new_LweKey(&tp->extracted_lweparams);
        for (int i = 0; i <= k; i++) for (int j = 0; j < N; j++) x->a[i].coefsT[j] = val();
        for (int i = 0; i < k; i++) for (int j = 0; j < N; j++) tk->key[i].coefs[j] = val();
        if (f == "tLweExtractKey") { tLweExtractKey(lk, tk); for (int i = 0; i < k; i++) for (int j = 0; j < N; j++) if (lk->key[i * N + j] != tk->key[i].coefs[j]) FAIL("tLweExtractKey: N=%d k=%d position (%d,%d)", N, k, i, j); }
        else for (int idx = 0; idx < N; idx++) {
            if (f == "tLweExtractLweSample") { if (idx) break; tLweExtractLweSample(r, x, &tp->extracted_lweparams, tp); } else tLweExtractLweSampleIndex(r, x, idx, &tp->extracted_lweparams, tp);
            // oracle: phase coefficient idx of b - sum a_i*s_i under ANY key: compare term by term = compare the mask with the negacyclic index map
            for (int i = 0; i < k; i++) for (int j = 0; j < N; j++) {
                uint32_t e = j <= idx ? U(x->a[i].coefsT[idx - j]) : 0u - U(x->a[i].coefsT[N + idx - j]);
                if (U(r->a[i * N + j]) != e) FAIL("%s: N=%d k=%d index=%d block %d position %d: got %u expected %u", f.c_str(), N, k, idx, i, j, U(r->a[i * N + j]), e);
            }
            if (r->b != x->b->coefsT[idx]) FAIL("%s: N=%d k=%d index=%d: b", f.c_str(), N, k, idx);
        }
        delete_LweKey(lk); delete_TLweKey(tk); delete_LweSample(r); delete_TLweSample(x); delete_TLweParams(tp);
    }
    return 0;
}
static int decomp(int l, int Bgbit) {
    for (int N : {1, 2, 7, 8, 9, 16, 33}) {
        TLweParams *tp = new_TLweParams(N, 1, 0., 0.); TGswParams *gp = new_TGswParams(l, Bgbit, tp);
        TorusPolynomial *s = new_TorusPolynomial(N); IntPolynomial *r = new_IntPolynomial_array(l, N); vector<int32_t> s0(N);
        for (int rep = 0; rep < 200; rep++) {
            for (int j = 0; j < N; j++) s->coefsT[j] = s0[j] = (rep == 0 ? (int32_t)(0x80000000u >> (j % 32)) : val());
            tGswTorus32PolynomialDecompH(r, s, gp);
            int64_t Bg = 1ll << Bgbit;
            for (int j = 0; j < N; j++) {
                if (s->coefsT[j] != s0[j]) FAIL("decomp l=%d Bgbit=%d N=%d: input coefficient %d not restored", l, Bgbit, N, j);
                uint32_t rec = 0;
                for (int p = 0; p < l; p++) { int64_t d = r[p].coefs[j]; if (d < -Bg / 2 || d >= Bg / 2) FAIL("decomp l=%d Bgbit=%d: digit %d of value %u out of [-Bg/2,Bg/2): %lld", l, Bgbit, p, U(s0[j]), (long long)d); rec += U((int32_t)d) << (32 - (p + 1) * Bgbit); }
                uint32_t diff = U(s0[j]) - rec, nd = rec - U(s0[j]); int lb = 32 - l * Bgbit;
                bool ok = lb == 0 ? diff == 0 : (diff < (1u << lb) || nd < (1u << lb));
                if (!ok) FAIL("decomp l=%d Bgbit=%d: value %u recomposes to %u", l, Bgbit, U(s0[j]), rec);
            }
        }
        delete_IntPolynomial_array(l, r); delete_TorusPolynomial(s); delete_TGswParams(gp); delete_TLweParams(tp);
    }
    return 0;
}
// gadget rows (C09): result += message(X)*H, message*H, H -- block-diagonal structure over all rows, polynomials, coefficients
static int gadget(const string &f) {
    static const int shapes[][3] = {{1, 2, 10}, {1, 3, 7}, {2, 2, 10}, {1, 1, 8}, {3, 2, 5}, {1, 4, 8}, {2, 3, 7}};
    for (auto &sh : shapes) for (int N : {1, 2, 3, 8, 17}) {
        int k = sh[0], l = sh[1], Bgbit = sh[2];
        TLweParams *tp = new_TLweParams(N, k, 0., 0.); TGswParams *gp = new_TGswParams(l, Bgbit, tp); TGswSample *g = new_TGswSample(gp); IntPolynomial *m = new_IntPolynomial(N);
        int kpl = (k + 1) * l; vector<uint32_t> old((size_t)kpl * (k + 1) * N);
        for (int rep = 0; rep < 20; rep++) {
            for (int r = 0; r < kpl; r++) for (int q = 0; q <= k; q++) for (int j = 0; j < N; j++) old[((size_t)r * (k + 1) + q) * N + j] = U(g->all_sample[r].a[q].coefsT[j] = val());
            for (int j = 0; j < N; j++) m->coefs[j] = rep == 0 ? 1 : val();
            int32_t mi = val();
            if (f == "tGswAddMuH") tGswAddMuH(g, m, gp); else if (f == "tGswAddMuIntH") tGswAddMuIntH(g, mi, gp); else tGswAddH(g, gp);
            for (int r = 0; r < kpl; r++) for (int q = 0; q <= k; q++) for (int j = 0; j < N; j++) {
                uint32_t h = 1u << (32 - (r % l + 1) * Bgbit), add = 0;
                if (q == r / l) add = f == "tGswAddMuH" ? U(m->coefs[j]) * h : (j == 0 ? (f == "tGswAddMuIntH" ? U(mi) * h : h) : 0u);
                uint32_t got = U(g->all_sample[r].a[q].coefsT[j]), exp = old[((size_t)r * (k + 1) + q) * N + j] + add;
                if (got != exp) FAIL("%s k=%d l=%d Bgbit=%d N=%d: row (bloc %d, i %d) polynomial %d coefficient %d is %u, expected %u", f.c_str(), k, l, Bgbit, N, r / l, r % l, q, j, got, exp);
            }
        }
        delete_IntPolynomial(m); delete_TGswSample(g); delete_TGswParams(gp); delete_TLweParams(tp);
    }
    return 0;
}
static int phase_pairing() {
    for (int n = 1; n <= 70; n++) for (int rep = 0; rep < 20; rep++) {
        LweParams *par = new_LweParams(n, 0., 0.); LweSample *s = new_LweSample(par); LweKey *k = new_LweKey(par);
        uint32_t acc = 0;
        for (int i = 0; i < n; i++) { s->a[i] = val(); k->key[i] = (rep & 1) ? (int32_t)(rnd() & 1) : val(); acc += U(s->a[i]) * U(k->key[i]); }
        s->b = val();
        uint32_t got = U(lwePhase(s, k)), e = U(s->b) - acc;
        if (got != e) FAIL("lwePhase: n=%d: got %u expected %u (b - sum a_i*s_i mod 2^32)", n, got, e);
        delete_LweKey(k); delete_LweSample(s); delete_LweParams(par);
    }
    return 0;
}
static int tlwe(const string &f) {
    for (int N : {1, 2, 3, 8, 16, 17}) for (int k : {1, 2, 3}) for (int32_t p : PS) {
        TLweParams *tp = new_TLweParams(N, k, 0., 0.); TLweSample *r = new_TLweSample(tp), *s = new_TLweSample(tp); TorusPolynomial *mu = new_TorusPolynomial(N);
        vector<vector<int32_t> > r0(k + 1, vector<int32_t>(N)), s0(k + 1, vector<int32_t>(N));
        for (int i = 0; i <= k; i++) for (int j = 0; j < N; j++) { r->a[i].coefsT[j] = r0[i][j] = val(); s->a[i].coefsT[j] = s0[i][j] = val(); }
        for (int j = 0; j < N; j++) mu->coefsT[j] = val();
        int ex = rnd() % (2 * N), pos = rnd() % (k + 1); int32_t x = val();
        if (f == "tLweClear") tLweClear(r, tp); else if (f == "tLweCopy") tLweCopy(r, s, tp); else if (f == "tLweNoiselessTrivial") tLweNoiselessTrivial(r, mu, tp);
        else if (f == "tLweNoiselessTrivialT") tLweNoiselessTrivialT(r, x, tp); else if (f == "tLweAddTo") tLweAddTo(r, s, tp); else if (f == "tLweSubTo") tLweSubTo(r, s, tp);
        else if (f == "tLweAddMulTo") tLweAddMulTo(r, p, s, tp); else if (f == "tLweSubMulTo") tLweSubMulTo(r, p, s, tp);
        else if (f == "tLweMulByXaiMinusOne") tLweMulByXaiMinusOne(r, ex, s, tp); else if (f == "tLweAddTTo") tLweAddTTo(r, pos, x, tp); else return 2;
        for (int i = 0; i <= k; i++) for (int j = 0; j < N; j++) {
            uint32_t o = U(r0[i][j]), y = U(s0[i][j]), e, got = U(r->a[i].coefsT[j]);
            if (f == "tLweClear") e = 0; else if (f == "tLweCopy") e = y; else if (f == "tLweNoiselessTrivial") e = i == k ? U(mu->coefsT[j]) : 0;
            else if (f == "tLweNoiselessTrivialT") e = (i == k && j == 0) ? U(x) : 0; else if (f == "tLweAddTo") e = o + y; else if (f == "tLweSubTo") e = o - y;
            else if (f == "tLweAddMulTo") e = o + U(p) * y; else if (f == "tLweSubMulTo") e = o - U(p) * y;
            else if (f == "tLweMulByXaiMinusOne") e = xai(s0[i], N, ex, j) - y; else e = o + ((i == pos && j == 0) ? U(x) : 0u);
            if (got != e) FAIL("%s: N=%d k=%d p=%d a=%d polynomial %d coefficient %d: got %u expected %u", f.c_str(), N, k, p, ex, i, j, got, e);
            if (s->a[i].coefsT[j] != s0[i][j]) FAIL("%s: input modified", f.c_str());
        }
        delete_TorusPolynomial(mu); delete_TLweSample(r); delete_TLweSample(s); delete_TLweParams(tp);
    }
    return 0;
}
static int mult(const string &f) {
    for (int N : {1, 2, 4, 8, 16, 32, 64, 128}) for (int rep = 0; rep < 6; rep++) {
        IntPolynomial *a = new_IntPolynomial(N); TorusPolynomial *b = new_TorusPolynomial(N), *r = new_TorusPolynomial(N); vector<uint32_t> r0(N), full(2 * N, 0);
        for (int i = 0; i < N; i++) { a->coefs[i] = rep == 0 ? (i == N - 1) : val(); b->coefsT[i] = rep == 0 ? ((i == N - 1) ? INT32_MIN : 0) : val(); r->coefsT[i] = val(); r0[i] = U(r->coefsT[i]); }
        for (int i = 0; i < N; i++) for (int j = 0; j < N; j++) full[i + j] += U(a->coefs[i]) * U(b->coefsT[j]);
        if (f == "naive") torusPolynomialMultNaive(r, a, b); else if (f == "torusPolynomialMultKaratsuba") torusPolynomialMultKaratsuba(r, a, b);
        else if (f == "torusPolynomialAddMulRKaratsuba") torusPolynomialAddMulRKaratsuba(r, a, b); else if (f == "torusPolynomialSubMulRKaratsuba") torusPolynomialSubMulRKaratsuba(r, a, b); else return 2;
        for (int k = 0; k < N; k++) {
            uint32_t pr = full[k] - full[k + N], e = f == "torusPolynomialAddMulRKaratsuba" ? r0[k] + pr : f == "torusPolynomialSubMulRKaratsuba" ? r0[k] - pr : pr;
            if (U(r->coefsT[k]) != e) FAIL("%s: N=%d coefficient %d: got %u expected %u (product in Z[X]/(X^N+1))", f.c_str(), N, k, U(r->coefsT[k]), e);
        }
        delete_IntPolynomial(a); delete_TorusPolynomial(b); delete_TorusPolynomial(r);
    }
    return 0;
}
static int keyswitch(int t, int basebit, int n) {
    // noiseless table with one-coefficient rows whose b identifies the row: result.b reveals exactly which rows were subtracted
    LweParams *op = new_LweParams(1, 0., 0.); LweKeySwitchKey *ks = new_LweKeySwitchKey(n, t, basebit, op); int base = 1 << basebit;
    for (int i = 0; i < n; i++) for (int j = 0; j < t; j++) for (int h = 0; h < base; h++) { ks->ks[i][j][h].a[0] = 0; ks->ks[i][j][h].b = (int32_t)(1000003u * (uint32_t)((i * t + j) * base + h) + 12345u); ks->ks[i][j][h].current_variance = 0; }
    LweParams *ip = new_LweParams(n, 0., 0.); LweSample *in = new_LweSample(ip), *out = new_LweSample(op);
    int k = 32 - t * basebit;
    for (int rep = 0; rep < (n > 64 ? 60 : 4000); rep++) {
        uint32_t exp = 0;
        for (int i = 0; i < n; i++) {
            uint32_t a = rep < 40 ? (0x7FFFFFFFu - (uint32_t)rep) : rep < 80 ? (0xFFFFFFFFu - (uint32_t)(rep - 40)) : U(val());
            in->a[i] = (int32_t)a;
            uint64_t top = (((uint64_t)a + ((uint64_t)1 << (k - 1))) >> k) & ((((uint64_t)1) << (t * basebit)) - 1);
            for (int j = 0; j < t; j++) { uint32_t d = (uint32_t)(top >> ((t - 1 - j) * basebit)) & (uint32_t)(base - 1); if (d) exp += U(ks->ks[i][j][d].b); }
        }
        in->b = val();
        lweKeySwitch(out, ks, in);
        if (U(out->b) != U(in->b) - exp || out->a[0] != 0) FAIL("lweKeySwitch t=%d basebit=%d n=%d: rows subtracted differ from the rows of the round-to-nearest digits (a[0]=%u)", t, basebit, n, U(in->a[0]));
    }
    return 0;
}
// creation of a key-switching key (C07): real lweCreateKeySwitchKey, shapes incl. large ones and row counts that are multiples of 2^15.
// Oracle: digit-0 rows are the zero sample; row (i,j,h>=1) has phase h*s_i*2^(32-(j+1)basebit) + e with e centred (the function recentres),
// of standard deviation alpha (8 sigma acceptance), masked; the noise values are not shared between rows (few coincidences at alpha = 0.01).
#include <cmath>
#include <algorithm>
static int kscreate() {
    static const int shapes[][3] = {{3, 2, 1}, {5, 3, 2}, {300, 8, 2}, {2048, 16, 1}, {1024, 32, 1}, {1500, 7, 2},
                                    {2048, 1, 1}, {2048, 2, 1}, {700, 1, 2}};   /* the last three: few rows per key coefficient (t*(base-1) = 1, 2, 3) and many coefficients */
    const double alpha = 0.01; const int nout = 4;
    for (auto &sh : shapes) { int n = sh[0], t = sh[1], bb = sh[2], base = 1 << bb;
        LweParams *ip = new_LweParams(n, 0., 0.), *op = new_LweParams(nout, alpha, 0.2); LweKey *ik = new_LweKey(ip), *ok = new_LweKey(op);
        for (int i = 0; i < n; i++) ik->key[i] = (i * 7 + 1) % 2; for (int i = 0; i < nout; i++) ok->key[i] = i % 2;
        LweKeySwitchKey *ks = new_LweKeySwitchKey(n, t, bb, op);
        lweCreateKeySwitchKey(ks, ik, ok);
        vector<int32_t> errs; double sum = 0, sq = 0; long zero_mask = 0;
        for (int i = 0; i < n; i++) for (int j = 0; j < t; j++) {
            const LweSample &z = ks->ks[i][j][0]; if (z.b != 0) FAIL("key-switching key n=%d t=%d basebit=%d: digit-0 row (%d,%d) is not the zero sample", n, t, bb, i, j);
            for (int h = 1; h < base; h++) { const LweSample &r = ks->ks[i][j][h];
                uint32_t mess = (U(ik->key[i]) * (uint32_t)h) * (1u << (32 - (j + 1) * bb));
                int32_t e = (int32_t)(U(lwePhase(&r, ok)) - mess); errs.push_back(e); double d = e / 4294967296.0; sum += d; sq += d * d;
                bool allz = true; for (int p = 0; p < nout; p++) if (r.a[p] != 0) allz = false; if (allz) zero_mask++;
            } }
        double m = errs.size(), mean = sum / m, sd = sqrt(sq / m - mean * mean);
        if (fabs(mean) > 8 * alpha / sqrt(m) + 1e-9) FAIL("key-switching key n=%d t=%d basebit=%d: row errors are not centred (mean %g)", n, t, bb, mean);
        if (m >= 200 && (sd < alpha * (1 - 8 / sqrt(2 * m)) || sd > alpha * (1 + 8 / sqrt(2 * m)))) FAIL("key-switching key n=%d t=%d basebit=%d: row errors have standard deviation %g, requested %g", n, t, bb, sd, alpha);
        if (zero_mask > 2) FAIL("key-switching key n=%d t=%d basebit=%d: %ld rows have an all-zero mask", n, t, bb, zero_mask);
        vector<int32_t> srt(errs); std::sort(srt.begin(), srt.end()); long eq = 0; for (size_t q = 1; q < srt.size(); q++) if (srt[q] == srt[q - 1]) eq++;
        double expect = m * m / 2 / (3.5 * alpha * 4294967296.0);
        if (eq > 10 * expect + 50) FAIL("key-switching key n=%d t=%d basebit=%d: %ld pairs of rows carry the same noise value (about %.0f expected for independent draws)", n, t, bb, eq, expect);
        delete_LweKeySwitchKey(ks); delete_LweKey(ik); delete_LweKey(ok); delete_LweParams(ip); delete_LweParams(op);
    }
    return 0;
}
int main(int argc, char **argv) {
    if (argc < 2) return 2;
    string f = argv[1];
    if (f == "naive" || f.find("Karatsuba") != string::npos) return mult(f);
    if (f.compare(0, 3, "lwe") == 0) return lwe(f);
    if (f.find("Polynomial") != string::npos) return poly(f);
    if (f.find("Extract") != string::npos) return extract(f);
    if (f == "decomp" && argc >= 4) return decomp(atoi(argv[2]), atoi(argv[3]));
    if (f == "pairing") return phase_pairing();
    if (f == "kscreate") return kscreate();
    if (f == "tGswAddMuH" || f == "tGswAddMuIntH" || f == "tGswAddH") return gadget(f);
    if (f == "keyswitch" && argc >= 5) return keyswitch(atoi(argv[2]), atoi(argv[3]), atoi(argv[4]));
    if (f == "naive" || f.find("Karatsuba") != string::npos) return mult(f);
    if (f.compare(0, 4, "tLwe") == 0 && f.find("Extract") == string::npos) return tlwe(f);
    return 2;
}
