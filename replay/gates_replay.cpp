// Native replay for C01 / C15: the REAL library (every src/libtfhe/*.cpp of the working tree + the portable nayuki FFT) with a
// real key: every gate, every aliasing pattern, full truth table, both parameter sets in one process (80 then 128 then 80),
// inputs = fresh encryptions; oracle = the gate's truth table.  Also checks that input ciphertexts that are not the output object
// are bit-for-bit unchanged.   usage: gates_replay [gate-name]   exit 0 = holds, 1 = violated
#include <cstdio>
#include <cstdlib>
#include <cstring>
#include <string>
#include "tfhe.h"
using namespace std;
typedef void (*gate2)(LweSample *, const LweSample *, const LweSample *, const TFheGateBootstrappingCloudKeySet *);
struct G2 { const char *name; gate2 f; int tt[4]; };   // tt[2*a+b]
static G2 GATES[] = {
    {"bootsNAND", bootsNAND, {1, 1, 1, 0}}, {"bootsOR", bootsOR, {0, 1, 1, 1}}, {"bootsAND", bootsAND, {0, 0, 0, 1}}, {"bootsXOR", bootsXOR, {0, 1, 1, 0}},
    {"bootsXNOR", bootsXNOR, {1, 0, 0, 1}}, {"bootsNOR", bootsNOR, {1, 0, 0, 0}}, {"bootsANDNY", bootsANDNY, {0, 1, 0, 0}}, {"bootsANDYN", bootsANDYN, {0, 0, 1, 0}},
    {"bootsORNY", bootsORNY, {1, 1, 0, 1}}, {"bootsORYN", bootsORYN, {1, 0, 1, 1}}};
static int fails = 0;
static bool same(const LweSample *x, const LweSample *y, int n) { if (x->b != y->b) return false; for (int i = 0; i < n; i++) if (x->a[i] != y->a[i]) return false; return true; }
static void run(int lambda, const char *only) {
    TFheGateBootstrappingParameterSet *params = new_default_gate_bootstrapping_parameters(lambda);
    uint32_t seed[] = {314u, 1592u, 657u, (uint32_t)lambda}; tfhe_random_generator_setSeed(seed, 4);
    TFheGateBootstrappingSecretKeySet *key = new_random_gate_bootstrapping_secret_keyset(params);
    const TFheGateBootstrappingCloudKeySet *bk = &key->cloud; int n = params->in_out_params->n;
    LweSample *x = new_gate_bootstrapping_ciphertext_array(4, params), *sv = new_gate_bootstrapping_ciphertext_array(4, params);
    for (size_t g = 0; g < sizeof(GATES) / sizeof(GATES[0]); g++) {
        if (only && strcmp(only, GATES[g].name)) continue;
        for (int alias = 0; alias < 5; alias++) for (int a = 0; a < 2; a++) for (int b = 0; b < 2; b++) {
            if ((alias == 3 || alias == 4) && a != b) continue;
            bootsSymEncrypt(x + 0, a, key); bootsSymEncrypt(x + 1, b, key);
            LweSample *ca = x + 0, *cb = (alias == 3 || alias == 4) ? x + 0 : x + 1, *res = (alias == 1 || alias == 4) ? ca : alias == 2 ? cb : x + 2;
            lweCopy(sv + 0, ca, params->in_out_params); lweCopy(sv + 1, cb, params->in_out_params);
            GATES[g].f(res, ca, cb, bk);
            int got = bootsSymDecrypt(res, key), exp = GATES[g].tt[2 * a + ((alias == 3 || alias == 4) ? a : b)];
            if (got != exp) { printf("%s lambda=%d aliasing=%d (a,b)=(%d,%d): decrypts to %d, truth table says %d\n", GATES[g].name, lambda, alias, a, b, got, exp); fails++; }
            if (res != ca && !same(ca, sv + 0, n)) { printf("%s lambda=%d aliasing=%d: input a modified\n", GATES[g].name, lambda, alias); fails++; }
            if (res != cb && !same(cb, sv + 1, n)) { printf("%s lambda=%d aliasing=%d: input b modified\n", GATES[g].name, lambda, alias); fails++; }
        }
    }
    if (!only || !strcmp(only, "bootsMUX")) for (int alias = 0; alias < 4; alias++) for (int v = 0; v < 8; v++) {
        int a = v & 1, b = (v >> 1) & 1, c = (v >> 2) & 1;
        bootsSymEncrypt(x + 0, a, key); bootsSymEncrypt(x + 1, b, key); bootsSymEncrypt(x + 2, c, key);
        LweSample *res = alias == 0 ? x + 3 : x + (alias - 1);
        for (int q = 0; q < 3; q++) lweCopy(sv + q, x + q, params->in_out_params);
        bootsMUX(res, x + 0, x + 1, x + 2, bk);
        int got = bootsSymDecrypt(res, key), exp = a ? b : c;
        if (got != exp) { printf("bootsMUX lambda=%d aliasing=%d (a,b,c)=(%d,%d,%d): decrypts to %d, expected %d\n", lambda, alias, a, b, c, got, exp); fails++; }
        for (int q = 0; q < 3; q++) if (res != x + q && !same(x + q, sv + q, n)) { printf("bootsMUX lambda=%d aliasing=%d: input %d modified\n", lambda, alias, q); fails++; }
    }
    if (!only || !strncmp(only, "bootsNOT", 8) || !strcmp(only, "NOT_COPY_CONSTANT")) for (int a = 0; a < 2; a++) for (int alias = 0; alias < 2; alias++) {
        bootsSymEncrypt(x + 0, a, key); LweSample *res = alias ? x + 0 : x + 1;
        bootsNOT(res, x + 0, bk); if (bootsSymDecrypt(res, key) != !a) { printf("bootsNOT(%d) aliasing=%d wrong\n", a, alias); fails++; }
        bootsSymEncrypt(x + 0, a, key); bootsCOPY(res, x + 0, bk); if (bootsSymDecrypt(res, key) != a) { printf("bootsCOPY(%d) aliasing=%d wrong\n", a, alias); fails++; }
        bootsCONSTANT(res, a, bk); if (bootsSymDecrypt(res, key) != a) { printf("bootsCONSTANT(%d) wrong\n", a); fails++; }
        bootsCONSTANT(res, a ? 77 : 0, bk); if (bootsSymDecrypt(res, key) != a) { printf("bootsCONSTANT(%d) wrong\n", a ? 77 : 0); fails++; }
    }
    delete_gate_bootstrapping_ciphertext_array(4, sv); delete_gate_bootstrapping_ciphertext_array(4, x);
    delete_gate_bootstrapping_secret_keyset(key); delete_gate_bootstrapping_parameters(params);
}
int main(int argc, char **argv) {
    const char *only = argc >= 2 ? argv[1] : 0;
    run(80, only); run(128, only); run(80, only);
    if (fails) { printf("%d violation(s)\n", fails); return 1; }
    return 0;
}
