#!/usr/bin/env python3
"""(re)generate contracts/loop_shapes.json from the current /repo tree for every function that has LOOP_<fn>_<k> contracts.
Run by hand when contracts are written or changed; never at check time."""
import json, os, re, sys
sys.path.insert(0, os.path.dirname(os.path.abspath(__file__)))
import core, props, extract as X
names = set()
cdir = os.path.join(core.VERIF, 'contracts')
for f in os.listdir(cdir):
    if f.endswith('.h'):
        names |= set(re.findall(r'#define\s+LOOP_(\w+?)_\d+\b', open(os.path.join(cdir, f)).read()))
shapes = {}
for pid, P in props.PROPS.items():
    for g in P['groups']('thorough'):
        for it in getattr(g, 'extract', []):
            sp = core.spec_of(it)
            if sp.get('closure'):
                continue
            r = core.extract_cached({k: v for k, v in sp.items() if k not in ('closure', 'skip')})
            if r['c_name'] in names:
                shapes[r['c_name']] = r['loop_shape']
json.dump(shapes, open(os.path.join(cdir, 'loop_shapes.json'), 'w'), indent=1, sort_keys=True)
print(len(shapes), 'functions; contracts without a recorded shape:', sorted(names - set(shapes)))
