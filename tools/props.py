"""Registry: property id -> obligation groups (DESIGN.md section 4)."""
import json
import os
import random
import sys

sys.path.insert(0, os.path.dirname(os.path.abspath(__file__)))
from core import Group, StaticGroup  # noqa: E402
import extract as X  # noqa: E402
import re  # noqa: E402

NF = 'numeric-functions.cpp'
STD_ASSUME = [
    'Torus32=int32_t arithmetic wraps (cbmc --no-signed-overflow-check; gcc/clang compile it as two\'s complement)',
    'scalar (#ifndef __AVX2__) branches only; inline assembly and .s kernels are not seen by the verifier',
    'allocation succeeds (--no-malloc-may-fail): std::bad_alloc / NULL-returning malloc paths are not explored',
    'extraction rules R1-R15 of tools/extract.py preserve the meaning of the copied source text',
]

C13_LISTED = [2, 3, 4, 5, 7, 8, 16, 1000, 1024, 2048, 4096, 32768, 2147483648]


def c13_groups(tier, tag='C13'):
    Ms = list(C13_LISTED)
    if tier == 'thorough':
        rnd = random.Random(int(os.environ.get('VERIF_SEED', '0') or 0))
        # all of [2,256], every power of two, seeded values: 60 in [257,4096] (0.5-15 s each), 24 in (4096, 32768] (100-170 s each: the constant divider)
        Ms += list(range(2, 257)) + [1 << k for k in range(1, 32)] + [rnd.randrange(257, 4097) for _ in range(60)] + [rnd.randrange(4097, 32769) for _ in range(24)]
        Ms = sorted(set(Ms))
    gs = []
    for M in Ms:
        d = {'VERIF_MSIZE': '%du' % M}
        big = {'timeout': 3600} if M > 4096 else {}     # the constant divider: 100-170 s each on an idle machine, several times that under load
        gs.append(Group('%s.modSwitchFromTorus32.M=%d' % (tag, M), 'c13_numeric.c', 'h_modSwitchFromTorus32',
                        extract=[(NF, 'modSwitchFromTorus32')], enforce='modSwitchFromTorus32', defines=d, replay='numeric', instance={'Msize': M}, **big))
        gs.append(Group('%s.modSwitchToTorus32.M=%d' % (tag, M), 'c13_numeric.c', 'h_modSwitchToTorus32',
                        extract=[(NF, 'modSwitchToTorus32')], enforce='modSwitchToTorus32', defines=d, replay='numeric', instance={'Msize': M}))
        gs.append(Group('%s.roundtrip.M=%d' % (tag, M), 'c13_numeric.c', 'h_approx_roundtrip',
                        extract=[(NF, 'modSwitchFromTorus32'), (NF, 'modSwitchToTorus32'), (NF, 'approxPhase')], defines=d, replay='numeric', instance={'Msize': M}, **big))
    gs.append(Group(tag + '.t32tod', 'c13_numeric.c', 'h_t32tod', extract=[(NF, 't32tod')], enforce='t32tod', replay='numeric'))
    gs.append(Group(tag + '.conversion', 'c13_numeric.c', 'h_conversion', extract=[(NF, 't32tod'), (NF, 'dtot32')], replay='numeric'))
    return gs


LF = 'lwe-functions.cpp'
TF = 'toruspolynomial-functions.cpp'
TL = 'tlwe-functions.cpp'
LW = 'lwe.cpp'
# multiplier constants for the clauses no back end decides for symbolic p (DESIGN section 1b)
P_SPARSE = ['0', '1', '(-1)', '2', '3', '(-8)', '65536', '(-2147483647-1)']
P_VAR = ['0', '1', '(-1)', '3', '(-181)', '32767']


def lwe_groups(tag, tier='quick'):
    gs = []
    for fn in ['lweClear', 'lweCopy', 'lweNegate', 'lweNoiselessTrivial', 'lweAddTo', 'lweSubTo']:
        gs.append(Group('%s.%s' % (tag, fn), 'c14_lwe.c', 'h_' + fn, extract=[(LF, fn)], enforce=fn, loops=True, replay=('lwe', fn)))
    for fn in ['lweNegate', 'lweCopy']:
        gs.append(Group('%s.%s.inplace' % (tag, fn), 'c14_lwe.c', 'h_' + fn, extract=[(LF, fn)], enforce=fn, loops=True, defines={'KNOB_ALIAS': None},
                        replay=('lwe', fn), instance={'aliasing': 'result == sample'}))
    gs.append(Group('%s.lwePhase.safety' % tag, 'c14_lwe.c', 'h_lwePhase', extract=[(LF, 'lwePhase')], enforce='lwePhase', loops=True, replay='pairing',
                    note='memory safety and frame for every n; the value is decided by the bounded pairing check (C03)'))
    # multiply variants: one contract, discharged in slices (coordinate clause / variance clause)
    gs.append(Group(tag + '.lweAddMulTo.coord', 'c14_lwe.c', 'h_lweAddMulTo', extract=[(LF, 'lweAddMulTo')], enforce='lweAddMulTo',
                    loops=True, backend='cvc5', defines={'KNOB_NOVAR': None}, replay=('lwe', 'lweAddMulTo')))
    for P in P_SPARSE:
        gs.append(Group('%s.lweSubMulTo.coord.p=%s' % (tag, P), 'c14_lwe.c', 'h_lweSubMulTo', extract=[(LF, 'lweSubMulTo')], enforce='lweSubMulTo',
                        loops=True, defines={'KNOB_NOVAR': None, 'VERIF_PCONST': P}, replay=('lwe', 'lweSubMulTo'), instance={'p': P}))
    for fn, d in (('lweAddMulTo', {}), ('lweSubMulTo', {'B_SUB': None})):
        for P in (P_VAR if tier == 'thorough' else ['3', '(-181)']):
            dd = dict(d)
            dd['VERIF_PCONST'] = P
            gs.append(Group('%s.%s.var.bounded.p=%s' % (tag, fn, P), 'c14_lwe.c', 'h_b_lweMulTo_var', extract=[(LF, fn)], unwind=4,
                            defines=dd, bounded=True, replay=('lwe', fn), instance={'p': P, 'n': '1..3'}))
    return gs


def poly_cw_groups(tag):
    gs = []
    for fn in ['torusPolynomialClear', 'torusPolynomialCopy', 'torusPolynomialAdd', 'torusPolynomialAddTo', 'torusPolynomialSub',
               'torusPolynomialSubTo', 'intPolynomialClear', 'intPolynomialCopy', 'intPolynomialAddTo']:
        gs.append(Group('%s.%s' % (tag, fn), 'c11_poly.c', 'h_' + fn, extract=[(TF, fn)], enforce=fn, loops=True, replay=('poly', fn)))
    for fn in ['torusPolynomialAddMulZ', 'torusPolynomialAddMulZTo']:
        gs.append(Group('%s.%s' % (tag, fn), 'c11_poly.c', 'h_' + fn, extract=[(TF, fn)], enforce=fn, loops=True, backend='cvc5', replay=('poly', fn)))
    for fn in ['torusPolynomialSubMulZ', 'torusPolynomialSubMulZTo']:
        for P in P_SPARSE:
            gs.append(Group('%s.%s.p=%s' % (tag, fn, P), 'c11_poly.c', 'h_' + fn, extract=[(TF, fn)], enforce=fn, loops=True,
                            defines={'VERIF_PCONST': P}, replay=('poly', fn), instance={'p': P}))
    return gs


def poly_mono_groups(tag):
    gs = []
    for fn in ['torusPolynomialMulByXai', 'torusPolynomialMulByXaiMinusOne', 'intPolynomialMulByXaiMinusOne']:
        gs.append(Group('%s.%s' % (tag, fn), 'c11_poly.c', 'h_' + fn, extract=[(TF, fn)], enforce=fn, loops=True, timeout=1200, replay=('poly', fn)))
    return gs


TLWE_CALLS = {
    'tLweClear': ['torusPolynomialClear'], 'tLweNoiselessTrivial': ['torusPolynomialClear', 'torusPolynomialCopy'],
    'tLweNoiselessTrivialT': ['torusPolynomialClear'], 'tLweAddTo': ['torusPolynomialAddTo'], 'tLweSubTo': ['torusPolynomialSubTo'],
    'tLweMulByXaiMinusOne': ['torusPolynomialMulByXaiMinusOne'], 'tLweAddTTo': [],
}


def tlwe_groups(tag, tier):
    gs = []
    Ks = [1] if tier == 'quick' else [1, 2, 3]
    for K in Ks:
        for fn, rep in TLWE_CALLS.items():
            for gi in range(K + 1):
                gs.append(Group('%s.%s.k=%d.gi=%d' % (tag, fn, K, gi), 'c14_tlwe.c', 'h_' + fn, extract=[(TL, fn)], enforce=fn, replace=rep,
                                unwind=K + 3, defines={'VERIF_K': K, 'VERIF_GI': gi}, instance={'k': K, 'g_i': gi}, replay=('tlwe', fn)))
        for gi in range(K + 1):
            if K == 1:   # all multipliers p at once (cvc5); for k >= 2 cvc5 does not finish: enumerated multipliers below
                gs.append(Group('%s.tLweAddMulTo.k=%d.gi=%d' % (tag, K, gi), 'c14_tlwe.c', 'h_tLweAddMulTo', extract=[(TL, 'tLweAddMulTo')],
                                enforce='tLweAddMulTo', replace=['torusPolynomialAddMulZTo'], unwind=K + 3, backend='cvc5', timeout=1800,
                                defines={'VERIF_K': K, 'VERIF_GI': gi}, instance={'k': K, 'g_i': gi}, replay=('tlwe', 'tLweAddMulTo')))
            else:
                for P in P_SPARSE:
                    gs.append(Group('%s.tLweAddMulTo.k=%d.gi=%d.p=%s' % (tag, K, gi, P), 'c14_tlwe.c', 'h_tLweAddMulTo', extract=[(TL, 'tLweAddMulTo')],
                                    enforce='tLweAddMulTo', replace=['torusPolynomialAddMulZTo'], unwind=K + 3,
                                    defines={'VERIF_K': K, 'VERIF_GI': gi, 'VERIF_PCONST': P}, instance={'k': K, 'g_i': gi, 'p': P}, replay=('tlwe', 'tLweAddMulTo')))
            for P in (P_SPARSE if tier == 'thorough' else ['3', '(-1)']):
                gs.append(Group('%s.tLweSubMulTo.k=%d.gi=%d.p=%s' % (tag, K, gi, P), 'c14_tlwe.c', 'h_tLweSubMulTo', extract=[(TL, 'tLweSubMulTo')],
                                enforce='tLweSubMulTo', replace=['torusPolynomialSubMulZTo'], unwind=K + 3,
                                defines={'VERIF_K': K, 'VERIF_GI': gi, 'VERIF_PCONST': P}, instance={'k': K, 'g_i': gi, 'p': P}, replay=('tlwe', 'tLweSubMulTo')))
        gs.append(Group('%s.tLweCopy.k=%d' % (tag, K), 'c14_tlwe.c', 'h_tLweCopy', extract=[(TL, 'tLweCopy')], enforce='tLweCopy', loops=True,
                        defines={'VERIF_K': K}, instance={'k': K}, replay=('tlwe', 'tLweCopy')))
        gs.append(Group('%s.tLweAddRTTo.k=%d' % (tag, K), 'c14_tlwe.c', 'h_tLweAddRTTo', extract=[(TL, 'tLweAddRTTo')], enforce='tLweAddRTTo', loops=True,
                        backend='cvc5', defines={'VERIF_K': K}, instance={'k': K}, replay=('tlwe', 'tLweAddRTTo')))
        for fn, dd in (('tLweAddMulTo', {}), ('tLweSubMulTo', {'B_SUB': None})):
            for P in (P_VAR if tier == 'thorough' else ['3', '(-181)']):
                gs.append(Group('%s.%s.var.k=%d.p=%s' % (tag, fn, K, P), 'c14_tlwe_var.c', 'h_tlwe_var', extract=[(TL, fn)], unwind=K + 3,
                                defines=dict(dd, VERIF_K=K, VERIF_PCONST=P), instance={'k': K, 'p': P, 'N': 'any (monitors)'}, replay=('tlwe', fn)))
        for fn in ['tLweExtractLweSampleIndex', 'tLweExtractKey']:
            gs.append(Group('%s.%s.k=%d' % (tag, fn, K), 'c14_tlwe.c', 'h_' + fn, extract=[(LW, fn)], enforce=fn, loops=True, timeout=1200,
                            defines={'VERIF_K': K}, instance={'k': K}, replay=('extract', fn)))
            if fn == 'tLweExtractLweSampleIndex':
                gs[-1].arb_bound = 3       # bounded arbiter: N = 3 exactly (a symbolic degree exhausts 8 GB in the SAT back end; 3 is not a power of two)
                gs[-1].arb_defines = {'VERIF_ARB_FIXED_N': None}
        gs.append(Group('%s.tLweExtractLweSample.k=%d' % (tag, K), 'c14_tlwe.c', 'h_tLweExtractLweSample', extract=[(LW, 'tLweExtractLweSample')],
                        enforce='tLweExtractLweSample', replace=['tLweExtractLweSampleIndex'],
                        defines={'VERIF_K': K, 'EXTRACT_CALLEE_CONTRACT': None}, instance={'k': K}, replay=('extract', 'tLweExtractLweSample')))
    return gs


def c14_groups(tier):
    return lwe_groups('C14', tier) + poly_cw_groups('C14') + poly_mono_groups('C14')[1:2] + tlwe_groups('C14', tier) + [
        Group('C14.lemma.linearity', 'lemmas.c', 'h_lemma_linearity', backend='z3'),
        Group('C14.lemma.extract_term', 'lemmas.c', 'h_lemma_extract_term', backend='z3'),
    ]


TG = 'tgsw-functions.cpp'


def rows_inc(L, K=1):
    r = range(L)
    r2 = range((K + 1) * L)
    return ('#define DEC_AND(M) (%s)\n#define DEC_COMMA(M) %s\n#define DEC_PLUS(M) (%s)\n' % (
        ' && '.join('M(%d)' % q for q in r), ', '.join('M(%d)' % q for q in r), ' + '.join('M(%d)' % q for q in r))
        + '#define DEC2_AND(M) (%s)\n#define DEC2_COMMA(M) %s\n' % (' && '.join('M(%d)' % q for q in r2), ', '.join('M(%d)' % q for q in r2)))


def valid_layouts():
    # Bg = 2^Bgbit is stored in an int32_t field, so a layout is valid only for Bgbit <= 30
    return [(l, b) for b in range(1, 31) for l in range(1, 33) if l * b <= 32]


def c12_groups(tier, tag='C12'):
    gs = []
    if tier == 'quick':
        dec = [(3, 7), (2, 10), (4, 8), (2, 2), (1, 8)]
        lem = [(3, 7), (2, 10), (4, 8), (16, 2), (32, 1), (1, 30), (2, 16), (5, 6)]
        wrap = [(3, 7, 1), (2, 10, 1)]
    else:
        dec = [(l, b) for (l, b) in valid_layouts() if l <= 6] + [(8, 4)]      # (16,2): 17 loops-worth of rows, cbmc > 30 min
        lem = valid_layouts()
        wrap = [(3, 7, 1), (2, 10, 1), (3, 7, 2), (2, 10, 2), (4, 8, 1), (2, 10, 3)]
    for (L, B) in dec:
        d = {'VERIF_L': L, 'VERIF_BGBIT': B, 'VERIF_K': 1}
        gs.append(Group('%s.DecompH.l=%d.Bgbit=%d' % (tag, L, B), 'c12_decomp.c', 'h_tGswTorus32PolynomialDecompH',
                        extract=[(TG, 'tGswTorus32PolynomialDecompH')], enforce='tGswTorus32PolynomialDecompH', loops=True, defines=d,
                        gen={'rows.inc': rows_inc(L)}, timeout=1800, instance={'l': L, 'Bgbit': B}, replay=('decomp', L, B)))
    for (L, B) in lem:
        d = {'VERIF_L': L, 'VERIF_BGBIT': B, 'VERIF_K': 1}
        gs.append(Group('%s.lemma.l=%d.Bgbit=%d' % (tag, L, B), 'c12_decomp.c', 'h_lemma_decomp', defines=d, gen={'rows.inc': rows_inc(L)},
                        unwind=L + 2, instance={'l': L, 'Bgbit': B}))
        gs.append(Group('%s.TGswParams.l=%d.Bgbit=%d' % (tag, L, B), 'c12_decomp.c', 'h_TGswParams_ctor',
                        extract=[('tgsw.cpp', 'TGswParams::TGswParams'), ('tgsw.cpp', 'TGswParams::~TGswParams')], unwind=L + 2, defines=d,
                        gen={'rows.inc': rows_inc(L)}, cbmc=['--memory-leak-check'], instance={'l': L, 'Bgbit': B}))
    for (L, B, K) in wrap:
        for gi in range(K + 1):
            d = {'VERIF_L': L, 'VERIF_BGBIT': B, 'VERIF_K': K, 'VERIF_GI': gi, 'DECOMP_CALLEE_CONTRACT': None}
            gs.append(Group('%s.TLweDecompH.l=%d.Bgbit=%d.k=%d.gi=%d' % (tag, L, B, K, gi), 'c12_decomp.c', 'h_tGswTLweDecompH',
                            extract=[(TG, 'tGswTLweDecompH')], enforce='tGswTLweDecompH', replace=['tGswTorus32PolynomialDecompH'],
                            unwind=max(K, L) + 3, defines=d, gen={'rows.inc': rows_inc(L, K)}, timeout=1800,
                            instance={'l': L, 'Bgbit': B, 'k': K, 'g_i': gi}))
    return gs


KS = 'lwe-keyswitch-functions.cpp'
KS_TABLE = [(KS, 'lweKeySwitchTranslate_fromArray'), ('lwekeyswitch.cpp', 'LweKeySwitchKey::LweKeySwitchKey'),
            ('lwekeyswitch.cpp', 'LweKeySwitchKey::~LweKeySwitchKey'), (KS, 'init_LweKeySwitchKey'), (KS, 'destroy_LweKeySwitchKey')]


def ks_layouts():
    return [(t, b) for b in range(1, 32) for t in range(1, 32) if t * b <= 31]


def tnz_inc(T):
    return ('#define TNZ_PREFIX(A, j) (%s)\n' % ' + '.join('((%d < (j) && DIG(A, %d) != 0) ? 1 : 0)' % (q, q) for q in range(T))
            + '#define TFOR(M) %s\n' % ' '.join('M(%d)' % q for q in range(T)))


def translate_unbounded_groups(tag, tier):
    lay = [(8, 2), (2, 3), (3, 5), (4, 4), (2, 1), (1, 1), (1, 4)] if tier == 'quick' else [(t, b) for (t, b) in ks_layouts() if 1 <= t <= 15 and b <= 8]
    return [Group('%s.translate.unbounded.t=%d.basebit=%d' % (tag, T, B), 'c08_keyswitch.c', 'h_translate_unbounded',
                  extract=[(KS, 'lweKeySwitchTranslate_fromArray')], loops=True, defines={'H_TRANSLATE_U': None, 'VERIF_T': T, 'VERIF_BASEBIT': B},
                  gen={'tnz.inc': tnz_inc(T)}, unwind=max(T + 2, 5), timeout=1200, instance={'t': T, 'basebit': B, 'n': 'symbolic'}, replay=('keyswitch', T, min(B, 4), 3))
            for (T, B) in lay]


def translate_watched_groups(tag, tier):
    lay = [(8, 2), (2, 3), (3, 5), (1, 4), (2, 1)] if tier == 'quick' else [(t, b) for (t, b) in ks_layouts() if 1 <= t <= 15 and b <= 8]
    return [Group('%s.translate.unbounded.any_mask.t=%d.basebit=%d' % (tag, T, B), 'c08_keyswitch.c', 'h_translate_watched',
                  extract=[(KS, 'lweKeySwitchTranslate_fromArray')], loops=True, defines={'H_TRANSLATE_W': None, 'VERIF_T': T, 'VERIF_BASEBIT': B},
                  gen={'tnz.inc': tnz_inc(T)}, unwind=max(T + 2, 6), timeout=1500, instance={'t': T, 'basebit': B, 'n': 'symbolic', 'mask': 'arbitrary', 'index': 'symbolic'},
                  replay=('keyswitch', T, min(B, 4), 3))
            for (T, B) in lay]


def c08_groups(tier, tag='C08'):
    gs = [Group(tag + '.lemma.digits', 'c08_keyswitch.c', 'h_lemma_digits', defines={'H_LEMMA': None}, unwind=33, timeout=1200,
                note='all 2^32 mask values, all valid (t,basebit) symbolic; loop bounded by the word width (complete)'),
          Group(tag + '.lweKeySwitch', 'c08_keyswitch.c', 'h_lweKeySwitch', defines={'H_KEYSWITCH': None}, extract=[(KS, 'lweKeySwitch')])]
    gs += translate_unbounded_groups(tag, tier) + translate_watched_groups(tag, tier)
    for (T, B) in ([(8, 2), (2, 3), (1, 1)] if tier == 'quick' else [(t, b) for (t, b) in ks_layouts() if b <= 8]):
        gs.append(Group('%s.LweKeySwitchKey.ctor.unbounded.t=%d.basebit=%d' % (tag, T, B), 'c08_keyswitch.c', 'h_ksctor_unbounded', extract=[('lwekeyswitch.cpp', 'LweKeySwitchKey::LweKeySwitchKey')],
                        loops=True, defines={'H_KSCTOR_U': None, 'VERIF_T': T, 'VERIF_BASEBIT': B}, timeout=900, instance={'t': T, 'basebit': B, 'n': 'symbolic'}, replay=('keyswitch', T, min(B, 4), 3)))
        gs[-1].arb_unwind = 4 * T + 3
    if tier == 'quick':
        lay = [(8, 2), (2, 3), (1, 1), (3, 5), (15, 2), (31, 1), (1, 31)]
        ns = [1, 2, 3]
    else:
        lay = ks_layouts()
        ns = [1, 2, 3, 5]
    for (T, B) in lay:
        gs.append(Group('%s.lemma.rowmsg.t=%d.basebit=%d' % (tag, T, B), 'c08_keyswitch.c', 'h_lemma_rowmsg',
                        defines={'H_LEMMA_ROWMSG': None, 'VERIF_T': T, 'VERIF_BASEBIT': B}, unwind=T + 2, backend='z3', instance={'t': T, 'basebit': B}))
        if B > 8 and tier != 'quick' and (T, B) not in ((1, 31), (2, 15), (3, 10)):
            continue   # base = 2^basebit rows per (i,j): the table itself gets large
        if B > 12 and (T, B) != (1, 31):
            continue
        for BN in ns:
            if (1 << B) * T * BN > 4096 or T * BN > 24:
                continue   # keep the unwound call log small; the instance grid is still every layout at n = 1 for t <= 24
            if (T, B) == (1, 31) :
                continue   # a 2^31-row table is not allocatable
            gs.append(Group('%s.translate.t=%d.basebit=%d.n=%d' % (tag, T, B, BN), 'c08_keyswitch.c', 'h_b_translate',
                            defines={'H_TRANSLATE': None, 'VERIF_T': T, 'VERIF_BASEBIT': B, 'VERIF_BN': BN}, extract=KS_TABLE,
                            unwind=BN * T + 3, bounded=True, timeout=1200, cbmc=['--memory-leak-check'],
                            instance={'t': T, 'basebit': B, 'n': BN}, replay=('keyswitch', T, B, BN)))
    return gs


BF = 'lwe-bootstrapping-functions-fft.cpp'
BN_ = 'lwe-bootstrapping-functions.cpp'


def boot_groups(tag):
    gs = []
    for fft, f, suf in [(1, BF, '_FFT'), (0, BN_, '')]:
        gs.append(Group('%s.blindRotate%s' % (tag, suf), 'c04_bootstrap.c', 'h_blindRotate', extract=[(f, 'tfhe_blindRotate' + suf)], loops=True,
                        defines={'FFT': fft, 'H_BLINDROTATE': None}, cbmc=['--memory-leak-check'], replay=('blind', fft)))
        gs.append(Group('%s.MuxRotate%s' % (tag, suf), 'c04_bootstrap.c', 'h_MuxRotate', extract=[(f, 'tfhe_MuxRotate' + suf)],
                        defines={'FFT': fft, 'H_MUXROTATE': None}))
        gs.append(Group('%s.blindRotateAndExtract%s' % (tag, suf), 'c04_bootstrap.c', 'h_blindRotateAndExtract',
                        extract=[(f, 'tfhe_blindRotateAndExtract' + suf)], defines={'FFT': fft, 'H_BRE': None}, cbmc=['--memory-leak-check']))
        gs.append(Group('%s.bootstrap_woKS%s' % (tag, suf), 'c04_bootstrap.c', 'h_bootstrap_woKS', extract=[(f, 'tfhe_bootstrap_woKS' + suf)], loops=True,
                        defines={'FFT': fft, 'H_WOKS': None}, cbmc=['--memory-leak-check'], replay=('woks', fft)))
        gs.append(Group('%s.bootstrap%s' % (tag, suf), 'c04_bootstrap.c', 'h_bootstrap', extract=[(f, 'tfhe_bootstrap' + suf)],
                        defines={'FFT': fft, 'H_BOOT': None}, cbmc=['--memory-leak-check']))
    gs.append(Group(tag + '.LweBootstrappingKeyFFT.init_destroy.bounded', 'c04_bootstrap.c', 'h_b_bkfft',
                    extract=[('lwebootstrappingkey.cpp', 'LweBootstrappingKeyFFT::LweBootstrappingKeyFFT'), ('lwebootstrappingkey.cpp', 'LweBootstrappingKeyFFT::~LweBootstrappingKeyFFT'),
                             (BF, 'init_LweBootstrappingKeyFFT'), (BF, 'destroy_LweBootstrappingKeyFFT')],
                    defines={'FFT': 1, 'H_BKFFT': None}, unwind=10, bounded=True, cbmc=['--memory-leak-check'],
                    instance={'n': 2, 'N': 2, 'k': 2, 't': 2, 'basebit': 1}))
    for (T, B) in [(8, 2), (2, 1)]:
        gs.append(Group('%s.LweBootstrappingKeyFFT.init_destroy.unbounded.t=%d.basebit=%d' % (tag, T, B), 'c04_bootstrap.c', 'h_bkfft_unbounded',
                        extract=[('lwebootstrappingkey.cpp', 'LweBootstrappingKeyFFT::LweBootstrappingKeyFFT'), ('lwebootstrappingkey.cpp', 'LweBootstrappingKeyFFT::~LweBootstrappingKeyFFT'),
                                 (BF, 'init_LweBootstrappingKeyFFT'), (BF, 'destroy_LweBootstrappingKeyFFT')], loops=True,
                        defines={'FFT': 1, 'H_BKFFT_U': None, 'VERIF_T': T, 'VERIF_BASEBIT': B}, gen={'bkf.inc': bkf_inc(T, B)}, cbmc=['--memory-leak-check'], timeout=1500,
                        instance={'t': T, 'basebit': B, 'n': 'symbolic', 'k*N': 'symbolic'}))
        gs[-1].arb_unwind = max(T, 1 << B, 4) + 3
    return gs


def bkf_inc(T, BB):
    base = 1 << BB
    assert T * base <= 64
    rows = ' '.join('M(%d, %d)' % (j, d) for j in range(T) for d in range(base))
    full = lambda q: '((uint64_t)%dull << %d)' % ((1 << base) - 1, q * base)
    # the shift amount is guarded inside the macro: a loop invariant is also evaluated on the havocked loop variable, before the range clause constrains it
    part = lambda q: '((uint64_t)(((uint64_t)1 << (((p) >= 0 && (p) <= %d) ? (p) : 0)) - 1) << %d)' % (base, q * base)
    mask = ' | '.join('((%d < (j)) ? %s : ((%d == (j)) ? %s : (uint64_t)0))' % (q, full(q), q, part(q)) for q in range(T))
    return '#define BKF_BLOCKS(M) %s\n#define BKF_ROWS(M) %s\n#define BKF_MASK(j, p) (%s)\n' % (' '.join('M(%d)' % q for q in range(T)), rows, mask)


def c04_groups(tier, tag='C04'):
    gs = boot_groups(tag)
    gs.append(Group(tag + '.lemma.testvector', 'lemmas.c', 'h_lemma_testvector', backend='cadical', timeout=1500))
    gs.append(Group(tag + '.lemma.monomial', 'lemmas.c', 'h_lemma_monomial', backend='cadical', timeout=1500,
                    defines={'LEMMA_NMAX': 65536 if tier == 'quick' else (1 << 20)}, note='N <= 2^16 (quick) / 2^20 (thorough): beyond that no SAT solver finishes'))
    # callee contracts the skeleton relies on, enforced on their real bodies
    gs.append(Group(tag + '.dep.torusPolynomialMulByXai', 'c11_poly.c', 'h_torusPolynomialMulByXai', extract=[(TF, 'torusPolynomialMulByXai')],
                    enforce='torusPolynomialMulByXai', loops=True, timeout=1200, replay=('poly', 'torusPolynomialMulByXai')))
    for M in ([2048] if tier == 'quick' else [2, 4, 8, 16, 64, 256, 1024, 2048, 4096, 16384]):
        gs.append(Group('%s.dep.modSwitchFromTorus32.M=%d' % (tag, M), 'c13_numeric.c', 'h_modSwitchFromTorus32', extract=[(NF, 'modSwitchFromTorus32')],
                        enforce='modSwitchFromTorus32', defines={'VERIF_MSIZE': '%du' % M}, replay='numeric', instance={'Msize': M}))
    for K in ([1] if tier == 'quick' else [1, 2, 3]):
        gs.append(Group('%s.dep.tLweExtractLweSampleIndex.k=%d' % (tag, K), 'c14_tlwe.c', 'h_tLweExtractLweSampleIndex', extract=[(LW, 'tLweExtractLweSampleIndex')],
                        enforce='tLweExtractLweSampleIndex', loops=True, timeout=1200, defines={'VERIF_K': K}, replay=('extract', 'tLweExtractLweSampleIndex')))
        gs[-1].arb_bound = 3
        gs[-1].arb_defines = {'VERIF_ARB_FIXED_N': None}
        gs.append(Group('%s.dep.tLweExtractLweSample.k=%d' % (tag, K), 'c14_tlwe.c', 'h_tLweExtractLweSample', extract=[(LW, 'tLweExtractLweSample')],
                        enforce='tLweExtractLweSample', replace=['tLweExtractLweSampleIndex'], defines={'VERIF_K': K, 'EXTRACT_CALLEE_CONTRACT': None}))
        gs.append(Group('%s.dep.tLweNoiselessTrivial.k=%d' % (tag, K), 'c14_tlwe.c', 'h_tLweNoiselessTrivial', extract=[(TL, 'tLweNoiselessTrivial')],
                        enforce='tLweNoiselessTrivial', replace=['torusPolynomialClear', 'torusPolynomialCopy'], unwind=K + 3,
                        defines={'VERIF_K': K, 'VERIF_GI': K}))
    return gs


BG = 'boot-gates.cpp'
GATES2 = [('bootsNAND', -1, -1, 1, ['lweSubTo']), ('bootsOR', 1, 1, 1, ['lweAddTo']), ('bootsAND', 1, 1, -1, ['lweAddTo']),
          ('bootsXOR', 2, 2, 2, ['lweAddMulTo']), ('bootsXNOR', -2, -2, -2, ['lweSubMulTo']), ('bootsNOR', -1, -1, -1, ['lweSubTo']),
          ('bootsANDNY', -1, 1, -1, ['lweSubTo', 'lweAddTo']), ('bootsANDYN', 1, -1, -1, ['lweAddTo', 'lweSubTo']),
          ('bootsORNY', -1, 1, 1, ['lweSubTo', 'lweAddTo']), ('bootsORYN', 1, -1, 1, ['lweAddTo', 'lweSubTo'])]
ALIAS_NAMES = {0: 'distinct', 1: 'result=ca', 2: 'result=cb', 3: 'ca=cb', 4: 'all-equal'}


def gate_groups(tag, tier, aliases=(0, 1, 2, 3, 4)):
    gs = []
    for (g, A, B, C, uses) in GATES2:
        for al in aliases:
            gs.append(Group('%s.%s.%s' % (tag, g, ALIAS_NAMES[al]), 'c01_gates.c', 'h_gate2', extract=[(BG, g), (NF, 'modSwitchToTorus32')],
                            replace=['lweNoiselessTrivial'] + uses, timeout=900,
                            defines={'H_GATE2': None, 'GATE': g, 'GA': '(%d)' % A, 'GB': '(%d)' % B, 'GC': '(%d)' % C, 'ALIAS': al},
                            instance={'gate': g, 'aliasing': ALIAS_NAMES[al]}, replay=('gate', g)))
    for al, nm in ((0, 'distinct'), (1, 'result=a'), (2, 'result=b'), (3, 'result=c')):
        if al in aliases or al == 3:
            gs.append(Group('%s.bootsMUX.%s' % (tag, nm), 'c01_gates.c', 'h_mux', extract=[(BG, 'bootsMUX'), (NF, 'modSwitchToTorus32')],
                            replace=['lweNoiselessTrivial', 'lweAddTo', 'lweSubTo'], defines={'H_MUX': None, 'ALIAS': al}, timeout=900,
                            instance={'gate': 'bootsMUX', 'aliasing': nm}, replay=('gate', 'bootsMUX')))
    gs.append(Group(tag + '.bootsMUX.samedim', 'c01_gates.c', 'h_mux', extract=[(BG, 'bootsMUX'), (NF, 'modSwitchToTorus32')],
                    replace=['lweNoiselessTrivial', 'lweAddTo', 'lweSubTo'], defines={'H_MUX': None, 'ALIAS': 0, 'MUX_SAMEDIM': None}, timeout=900))
    gs.append(Group(tag + '.NOT_COPY_CONSTANT', 'c01_gates.c', 'h_gate1',
                    extract=[(BG, 'bootsNOT'), (BG, 'bootsCOPY'), (BG, 'bootsCONSTANT'), (NF, 'modSwitchToTorus32')],
                    replace=['lweNoiselessTrivial', 'lweNegate', 'lweCopy'], defines={'H_GATE1': None}, timeout=900, replay=('gate', 'NOT_COPY_CONSTANT')))
    gs.append(Group(tag + '.NOT_COPY.inplace', 'c01_gates.c', 'h_gate1', extract=[(BG, 'bootsNOT'), (BG, 'bootsCOPY'), (BG, 'bootsCONSTANT'), (NF, 'modSwitchToTorus32')],
                    replace=['lweNegate', 'lweCopy'], defines={'H_GATE1': None, 'KNOB_ALIAS': None}, timeout=900, replay=('gate', 'NOT_COPY_CONSTANT'),
                    instance={'aliasing': 'result == input'}))
    return gs


def truth_groups(tag):
    return [Group('%s.truth.%s' % (tag, g), 'c01_gates.c', 'h_truth_' + g, defines={'H_TRUTH': None}, instance={'gate': g})
            for g in [x[0] for x in GATES2] + ['bootsMUX']]


def c01_groups(tier, tag='C01'):
    gs = gate_groups(tag, tier) + truth_groups(tag)      # every gate under every aliasing pattern
    # the contracts of the linear operations the gates are proved against, enforced on their real bodies
    gs += [g for g in lwe_groups(tag + '.dep', tier) if not g.bounded]
    return gs


GB = 'tfhe_gate_bootstrapping.cpp'
AG = 'autogenerated.cpp'


def c19_groups(tier, tag='C19'):
    ex = [('tfhe_gate_bootstrapping_structures.cpp', 'TFheGateBootstrappingParameterSet::TFheGateBootstrappingParameterSet'),
          ('lweparams.cpp', 'LweParams::LweParams'), ('tlwe.cpp', 'TLweParams::TLweParams'), ('tgsw.cpp', 'TGswParams::TGswParams')]
    for T in ['LweParams', 'TLweParams', 'TGswParams']:
        ex += [(AG, 'alloc_' + T), (AG, 'init_' + T), (AG, 'new_' + T)]
    ex += [(GB, 'new_default_gate_bootstrapping_parameters', 'closure', 'skip=die_dramatically')]   # + whatever static helpers it calls in that file
    return [Group(tag + '.selector', 'c19_params.c', 'h_params', extract=ex, unwind=5, timeout=900, replay='params')]


MU = 'multiplication.cpp'


def mult_safety_groups(tag):
    gs = [Group(tag + '.torusPolynomialMultNaive_plain_aux.safety', 'c16_mult.c', 'h_plain', extract=[(MU, 'torusPolynomialMultNaive_plain_aux')],
                enforce='torusPolynomialMultNaive_plain_aux', loops=True, timeout=1200, replay=('mult', 'torusPolynomialMultKaratsuba', 16)),
          Group(tag + '.torusPolynomialMultNaive_aux.safety', 'c16_mult.c', 'h_naive_aux', extract=[(MU, 'torusPolynomialMultNaive_aux')],
                enforce='torusPolynomialMultNaive_aux', loops=True, timeout=1200, replay=('mult', 'naive', 8)),
          Group(tag + '.Karatsuba_aux.safety.recursive', 'c16_mult.c', 'h_kara', extract=[(MU, 'Karatsuba_aux')], enforce='Karatsuba_aux', enforce_rec=True,
                replace=['torusPolynomialMultNaive_plain_aux'], loops=True, defines={'KARA_CALLEE': None}, timeout=1800, replay=('mult', 'torusPolynomialMultKaratsuba', 16),
                note='every size >= 1: 16*size bytes of scratch suffice for the whole recursion; recursive calls replaced by the same contract')]
    for fn in ['torusPolynomialMultKaratsuba', 'torusPolynomialAddMulRKaratsuba', 'torusPolynomialSubMulRKaratsuba']:
        gs.append(Group('%s.%s.safety' % (tag, fn), 'c16_mult.c', 'h_kwrap', extract=[(MU, fn)], enforce=fn, replace=['Karatsuba_aux'], loops=True,
                        defines={'KW_CALLEE': None, 'KWFN': fn}, cbmc=['--memory-leak-check'], timeout=1200, replay=('mult', fn)))
    return gs


def c11_groups(tier, tag='C11'):
    gs = poly_cw_groups(tag) + poly_mono_groups(tag) + mult_safety_groups(tag) + fftmul_groups(tag)
    gs.append(Group(tag + '.lemma.monomial', 'lemmas.c', 'h_lemma_monomial', backend='cadical', timeout=1500,
                    defines={'LEMMA_NMAX': 65536 if tier == 'quick' else (1 << 20)}))
    for N in ([1, 2, 4, 8, 16] if tier == 'quick' else [1, 2, 4, 8, 16, 32, 64]):
        gs.append(Group('%s.naive.bounded.N=%d' % (tag, N), 'c11_mult.c', 'h_b_naive', extract=[(MU, 'torusPolynomialMultNaive_aux')],
                        defines={'H_NAIVE': None, 'VERIF_N': N}, unwind=2 * N + 2, bounded=True, timeout=1800, backend='z3',
                        instance={'N': N}, replay=('mult', 'naive', N)))
    for km, fn in [(0, 'torusPolynomialMultKaratsuba'), (1, 'torusPolynomialAddMulRKaratsuba'), (2, 'torusPolynomialSubMulRKaratsuba')]:
        gs.append(Group('%s.%s.bounded.N=16' % (tag, fn), 'c11_mult.c', 'h_b_karatsuba',
                        extract=[(MU, 'torusPolynomialMultNaive_plain_aux'), (MU, 'Karatsuba_aux'), (MU, fn)],
                        defines={'H_KARA': None, 'VERIF_N': 16, 'KMODE': km}, unwind=34, bounded=True, timeout=1800, backend='z3',
                        cbmc=['--memory-leak-check'], instance={'N': 16, 'inputs': 'basis pairs (X^i, c*X^j), c symbolic'}, replay=('mult', fn, 16)))
    return gs


# ---------------------------------------------------------------------------------------------- C15 / C16
EVAL_FUNCTIONS = (
    [(BG, g[0]) for g in GATES2] + [(BG, 'bootsMUX'), (BG, 'bootsNOT'), (BG, 'bootsCOPY'), (BG, 'bootsCONSTANT')]
    + [(BF, f) for f in ('tfhe_MuxRotate_FFT', 'tfhe_blindRotate_FFT', 'tfhe_blindRotateAndExtract_FFT', 'tfhe_bootstrap_woKS_FFT', 'tfhe_bootstrap_FFT')]
    + [(BN_, f) for f in ('tfhe_MuxRotate', 'tfhe_blindRotate', 'tfhe_blindRotateAndExtract', 'tfhe_bootstrap_woKS', 'tfhe_bootstrap')]
    + [(KS, 'lweKeySwitch'), (KS, 'lweKeySwitchTranslate_fromArray')]
    + [(LW, 'tLweExtractLweSampleIndex'), (LW, 'tLweExtractLweSample'), (LW, 'tLweExtractKey')]
    + [(TG, f) for f in ('tGswTorus32PolynomialDecompH', 'tGswTLweDecompH', 'tGswExternMulToTLwe', 'tGswExternProduct', 'tGswMulByXaiMinusOne')]
    + [('tgsw-fft-operations.cpp', 'tGswFFTExternMulToTLwe')]
    + [(LF, f) for f in ('lweClear', 'lweCopy', 'lweNegate', 'lweNoiselessTrivial', 'lweAddTo', 'lweSubTo', 'lweAddMulTo', 'lweSubMulTo', 'lwePhase')]
    + [(TL, f) for f in ('tLweClear', 'tLweCopy', 'tLweNoiselessTrivial', 'tLweAddTo', 'tLweSubTo', 'tLweAddMulTo', 'tLweSubMulTo', 'tLweMulByXaiMinusOne', 'tLweAddTTo')]
    + [(TF, f) for f in ('torusPolynomialClear', 'torusPolynomialCopy', 'torusPolynomialAddTo', 'torusPolynomialSubTo', 'torusPolynomialAddMulZTo',
                         'torusPolynomialSubMulZTo', 'torusPolynomialMulByXai', 'torusPolynomialMulByXaiMinusOne')]
    + [(NF, f) for f in ('modSwitchFromTorus32', 'modSwitchToTorus32', 'approxPhase', 'dtot32', 't32tod')]
)
RNG_SYMBOLS = {'generator', 'uniformTorus32_distrib', 'uniformInt_distrib', 'gaussian32', 'torusPolynomialUniform', 'rand', 'random', 'srand',
               'lweKeyGen', 'tLweKeyGen', 'tGswKeyGen', 'lweSymEncrypt', 'lweSymEncryptWithExternalNoise', 'tLweSymEncryptZero', 'tLweSymEncrypt',
               'tLweSymEncryptT', 'tGswSymEncrypt', 'tGswSymEncryptInt', 'tGswEncryptZero', 'tGswEncryptB', 'tfhe_random_generator_setSeed',
               'normal_distribution', 'uniform_int_distribution', 'lweCreateKeySwitchKey', 'tfhe_createLweBootstrappingKey'}


def rng_scan(group):
    out = []
    for (f, fn) in EVAL_FUNCTIONS:
        refs = X.references(f, fn)
        bad = sorted(refs & RNG_SYMBOLS)
        out.append(('%s.no_rng' % fn, not bad, 'static AST fact: %s references no random-generator symbol%s' % (fn, (' -- references ' + ', '.join(bad)) if bad else '')))
    return out


SAFETY_CLASSES = {'pointer_dereference', 'array_bounds', 'bounds', 'memory-leak', 'undefined-shift', 'division-by-zero', 'pointer_primitives',
                  'pointer_arithmetic', 'precondition', 'NaN', 'overflow', 'unwind'}


def sel_c15(g, o):
    if o['cls'] in ('assigns', 'static'):
        return True
    if re.search(r'untouched|unchanged|restor|not touch|inputs? ', o['desc']):
        return True
    if 'DecompH' in g.name and o['cls'] == 'postcondition':
        return True
    return False


def sel_c16(g, o):
    if o['cls'] in SAFETY_CLASSES or o['cls'] == 'static' or '.keyset.' in g.name:
        return True
    if re.search(r'spec sanity|released|releases|freed|scratch|holds n entries|in range|writable|readable|OOB|size|owns|life cycle', o['desc']):
        return True
    return False


def alloc_extract():
    ex = [('lwesamples.cpp', 'LweSample::LweSample'), ('lwesamples.cpp', 'LweSample::~LweSample'), ('lwekey.cpp', 'LweKey::LweKey'), ('lwekey.cpp', 'LweKey::~LweKey'),
          (MU, 'IntPolynomial::IntPolynomial'), (MU, 'IntPolynomial::~IntPolynomial'), (MU, 'TorusPolynomial::TorusPolynomial'), (MU, 'TorusPolynomial::~TorusPolynomial')]
    for T in ['IntPolynomial', 'TorusPolynomial']:
        for f in ['alloc_%s', 'alloc_%s_array', 'free_%s', 'free_%s_array', 'init_%s', 'init_%s_array', 'destroy_%s', 'destroy_%s_array',
                  'new_%s', 'new_%s_array', 'delete_%s', 'delete_%s_array']:
            ex.append((AG, f % T))
    ex += [('tlwe.cpp', 'TLweKey::TLweKey'), ('tlwe.cpp', 'TLweKey::~TLweKey'), ('tlwe.cpp', 'TLweSample::TLweSample'), ('tlwe.cpp', 'TLweSample::~TLweSample'),
           ('tgsw.cpp', 'TGswSample::TGswSample', 'decl_file=tgsw.h'), ('tgsw.cpp', 'TGswSample::~TGswSample', 'decl_file=tgsw.h'),
           (LF, 'init_LweSample'), (LF, 'destroy_LweSample'), (LF, 'init_LweKey'), (LF, 'destroy_LweKey'),
           (TL, 'init_TLweKey'), (TL, 'destroy_TLweKey'), (TL, 'init_TLweSample'), (TL, 'destroy_TLweSample'), (TG, 'init_TGswSample'), (TG, 'destroy_TGswSample')]
    return ex


def alloc_bk_extract():
    ex = alloc_extract()
    ex += [('lwekeyswitch.cpp', 'LweKeySwitchKey::LweKeySwitchKey'), ('lwekeyswitch.cpp', 'LweKeySwitchKey::~LweKeySwitchKey')]
    ex += [(KS, f) for f in ('alloc_LweKeySwitchKey', 'free_LweKeySwitchKey', 'init_LweKeySwitchKey', 'destroy_LweKeySwitchKey', 'new_LweKeySwitchKey', 'delete_LweKeySwitchKey')]
    ex += [('lwebootstrappingkey.cpp', 'LweBootstrappingKey::LweBootstrappingKey'), ('lwebootstrappingkey.cpp', 'LweBootstrappingKey::~LweBootstrappingKey'),
           (BN_, 'init_LweBootstrappingKey'), (BN_, 'destroy_LweBootstrappingKey')]
    return ex


def alloc_groups(tag, tier):
    shapes = [(1, 2), (2, 3)] if tier == 'quick' else [(1, 1), (1, 2), (1, 3), (2, 2), (2, 3), (3, 2), (1, 8)]
    bk = [Group('%s.lifecycle.LweBootstrappingKey.k=%d.l=%d' % (tag, K, L), 'c16_alloc.c', 'h_alloc_bk', extract=alloc_bk_extract(),
                defines={'VERIF_K': K, 'VERIF_L': L, 'H_ALLOC_BK': None}, unwind=max((K + 1) * L, 8 * K) + 3, cbmc=['--memory-leak-check'], timeout=1800,
                instance={'k': K, 'l': L, 'n': 2, 'N': 2, 't': 2, 'basebit': 1}) for (K, L) in ([(1, 2), (2, 2)] if tier == 'quick' else shapes[:5])]
    TLF_, TGF_ = 'tlwe-fft-operations.cpp', 'tgsw-fft-operations.cpp'
    fft_ex = alloc_extract() + [('tlwe.cpp', 'TLweSampleFFT::TLweSampleFFT'), ('tlwe.cpp', 'TLweSampleFFT::~TLweSampleFFT'), (TLF_, 'init_TLweSampleFFT'), (TLF_, 'destroy_TLweSampleFFT'),
                                ('tgsw.cpp', 'TGswSampleFFT::TGswSampleFFT'), ('tgsw.cpp', 'TGswSampleFFT::~TGswSampleFFT'), (TGF_, 'init_TGswSampleFFT'), (TGF_, 'destroy_TGswSampleFFT'),
                                ('tgsw.cpp', 'TGswKey::TGswKey'), ('tgsw.cpp', 'TGswKey::~TGswKey')]
    fft_ex += [(AG, f % 'TGswKey') for f in ['alloc_%s', 'free_%s', 'init_%s', 'destroy_%s', 'new_%s', 'delete_%s']]
    bk += [Group('%s.lifecycle.fft_samples+TGswKey.k=%d.l=%d' % (tag, K, L), 'c16_alloc.c', 'h_alloc_fft', extract=fft_ex, defines={'VERIF_K': K, 'VERIF_L': L, 'H_ALLOC_FFT': None},
                 unwind=(K + 1) * L + 3, cbmc=['--memory-leak-check'], timeout=1800, instance={'k': K, 'l': L}) for (K, L) in ([(1, 2), (2, 2)] if tier == 'quick' else shapes[:5])]
    return bk + [Group('%s.lifecycle.k=%d.l=%d' % (tag, K, L), 'c16_alloc.c', 'h_alloc', extract=alloc_extract(), defines={'VERIF_K': K, 'VERIF_L': L},
                  unwind=(K + 1) * L + 3, cbmc=['--memory-leak-check'], timeout=1800, instance={'k': K, 'l': L}) for (K, L) in shapes]


def _retag(gs, tag):
    out = []
    for g in gs:
        g.name = tag + '.' + g.name.split('.', 1)[1] if '.' in g.name else tag + '.' + g.name
        out.append(g)
    return out


def c15_groups(tier):
    gs = gate_groups('C15', tier)                                   # every gate x every aliasing pattern
    gs += boot_groups('C15')
    gs += [g for g in c08_groups(tier, 'C15') if 'translate' in g.name or 'lweKeySwitch' in g.name]
    dz = [g for g in c12_groups(tier, 'C15') if 'DecompH' in g.name and ('lemma' not in g.name)]
    if tier == 'quick':
        dz = [g for g in dz if ('TLweDecompH' not in g.name and ('l=3.Bgbit=7' in g.name or 'l=2.Bgbit=10' in g.name or 'l=1.Bgbit=8' in g.name)) or 'TLweDecompH.l=2.Bgbit=10.k=1' in g.name]
    gs += dz
    gs += [g for g in tlwe_groups('C15', tier) if 'Extract' in g.name]
    gs += [g for g in lwe_groups('C15', tier) if 'inplace' in g.name]      # bootsNOT(x,x) / bootsCOPY(x,x): the in-place linear operation
    gs.append(StaticGroup('C15.static.no_rng', rng_scan))
    return gs


def keyset_dtor_scan(group):
    """static AST fact: the three API structures of tfhe_gate_bootstrapping_structures.h declare no destructor (the implicit one does nothing),
    which is what harness/c16_keyset.c assumes when it maps `delete p` to a no-op destructor plus free"""
    out = []
    cpp = os.path.join(X.SRC, GBS)
    for cls in ('TFheGateBootstrappingParameterSet', 'TFheGateBootstrappingCloudKeySet', 'TFheGateBootstrappingSecretKeySet'):
        found, user = [False], []

        def visit(o):
            if o.get('kind') == 'CXXRecordDecl' and o.get('name') == cls and o.get('completeDefinition'):
                found[0] = True
                for c in o.get('inner', []) or []:
                    if c.get('kind') == 'CXXDestructorDecl' and not c.get('isImplicit'):
                        user.append(c.get('name'))
                    if c.get('kind') == 'FieldDecl' and not re.search(r'\*|int32_t|TFheGateBootstrappingCloudKeySet', c.get('type', {}).get('qualType', '')):
                        user.append('field ' + c.get('name', '?') + ' of class type')
            for c in o.get('inner', []) or []:
                visit(c)
        for o in X.clang_ast(cpp, cls):
            visit(o)
        if not found[0]:
            raise X.ExtractionError('definition of %s not found' % cls)
        out.append(('%s.implicit_trivial_destructor' % cls, not user, 'static AST fact: %s has no user-declared destructor and only pointer / integer fields%s' % (cls, (' -- found ' + ', '.join(user)) if user else '')))
    return out


def keyset_groups(tag):
    fns = ['delete_gate_bootstrapping_secret_keyset', 'delete_gate_bootstrapping_cloud_keyset', 'delete_gate_bootstrapping_parameters', 'new_gate_bootstrapping_ciphertext',
           'new_gate_bootstrapping_ciphertext_array', 'delete_gate_bootstrapping_ciphertext', 'delete_gate_bootstrapping_ciphertext_array']
    return [Group(tag + '.keyset.lifecycle', 'c16_keyset.c', 'h_keyset_lifecycle', extract=[(GB, f) for f in fns], cbmc=['--memory-leak-check']),
            StaticGroup(tag + '.static.keyset_dtors_implicit', keyset_dtor_scan)]


def c16_groups(tier):
    gs = alloc_groups('C16', tier)
    gs += keyset_groups('C16')
    gs += fftmul_groups('C16')                          # FFT-based ring products: temporaries released
    # functions put under contract late: their safety obligations (bounds of the noise array of the key-switching key creation for every n, gadget rows, TGSW decryption temporaries)
    gs += [g for g in c07_groups(tier, 'C16') if 'lweCreateKeySwitchKey.unbounded' in g.name and ('t=8' in g.name or 't=2' in g.name or tier != 'quick')]
    gs += [g for g in c09_groups(tier, 'C16') if 'tGswAddMuH.k=1.l=2' in g.name or 'tGswExternProduct' in g.name or ('tGswAddMuH' in g.name and tier != 'quick')]
    gs += [g for g in c03_groups(tier, 'C16') if 'tGswSymDecrypt' in g.name]
    gs += [g for g in c18_groups(tier, 'C16') if '.native.' not in g.name]                     # binary readers: every destination writable for the byte count requested
    gs += [g for g in c17_groups(tier, 'C16') if 'write+read' in g.name or 'key+sample' in g.name]     # binary writers: every source readable for the byte count
    gs += boot_groups('C16')
    gs += [g for g in c08_groups(tier, 'C16') if 'translate' in g.name]      # bounded (real table) and unbounded-in-n (uniform table) variants
    dz = [g for g in c12_groups(tier, 'C16') if 'lemma' not in g.name]
    if tier == 'quick':
        dz = [g for g in dz if 'TLweDecompH' not in g.name or 'TLweDecompH.l=2.Bgbit=10.k=1' in g.name]
    gs += dz
    gs += [g for g in lwe_groups('C16', tier) if not g.bounded]
    gs += (poly_mono_groups('C16')[:1] if tier == 'quick' else poly_mono_groups('C16'))
    gs += [g for g in poly_cw_groups('C16') if '.p=' not in g.name or '.p=3' in g.name]
    tz = [g for g in tlwe_groups('C16', 'quick') if '.p=' not in g.name or '.p=3' in g.name]
    if tier == 'quick':
        tz = [g for g in tz if 'tLweAddMulTo' not in g.name and 'tLweAddRTTo' not in g.name and 'tLweMulByXaiMinusOne.k=1.gi=1' not in g.name]
    gs += tz
    gs += gate_groups('C16', tier, aliases=(0,))
    gs += c19_groups(tier, 'C16')
    gs += mult_safety_groups('C16')
    for km, fn in [(0, 'torusPolynomialMultKaratsuba')]:
        gs.append(Group('C16.%s.bounded.N=16' % fn, 'c11_mult.c', 'h_b_karatsuba',
                        extract=[(MU, 'torusPolynomialMultNaive_plain_aux'), (MU, 'Karatsuba_aux'), (MU, fn)],
                        defines={'H_KARA': None, 'VERIF_N': 16, 'KMODE': km}, unwind=34, bounded=True, timeout=1800, backend='z3', cbmc=['--memory-leak-check']))
    return gs


S_ = 'sampler'
ALPHAS = ['0x1p-15', '0x1p-25', '2.44e-5', '7.18e-9', '0.0']


def enc_groups(tag):
    gs = [Group(tag + '.gaussian32', 'c03_encrypt.c', 'h_gaussian32', extract=[(NF, 'gaussian32', S_)], defines={'H_GAUSSIAN': None}),
          Group(tag + '.lweKeyGen', 'c03_encrypt.c', 'h_lweKeyGen', extract=[(LF, 'lweKeyGen', S_)], loops=True, defines={'H_KEYGEN': None}, replay=('keygen', 'lwe')),
          Group(tag + '.gate_api_wiring', 'c03_encrypt.c', 'h_decrypt_wiring',
                extract=[(LF, 'lweSymDecrypt'), (NF, 'modSwitchToTorus32'), (GB, 'bootsSymEncrypt'), (GB, 'bootsSymDecrypt')], defines={'H_DECRYPT': None})]
    for A in ALPHAS:
        gs.append(Group('%s.lweSymEncrypt.alpha=%s' % (tag, A), 'c03_encrypt.c', 'h_lweSymEncrypt', extract=[(LF, 'lweSymEncrypt', S_)], loops=True,
                        defines={'H_ENCRYPT': None, 'VERIF_ALPHA': A}, instance={'alpha': A}, replay='pairing'))
    gs.append(Group(tag + '.lweSymEncryptWithExternalNoise', 'c03_encrypt.c', 'h_lweSymEncrypt', extract=[(LF, 'lweSymEncryptWithExternalNoise', S_)],
                    loops=True, defines={'H_ENCRYPT': None, 'EXTERNAL_NOISE': None, 'VERIF_ALPHA': '0x1p-15'}, replay='kscreate'))
    return gs


def c03_groups(tier, tag='C03'):
    gs = [g for g in enc_groups(tag) if 'KeyGen' not in g.name]
    for n in ([1, 2, 3, 4, 5, 6, 7, 8, 9, 11] if tier == 'quick' else list(range(1, 18)) + [23, 31, 32]):
        gs.append(Group('%s.pairing.bounded.n=%d' % (tag, n), 'c03_encrypt.c', 'h_b_pairing', extract=[(LF, 'lweSymEncrypt', S_), (LF, 'lwePhase')],
                        defines={'H_PAIRING': None, 'VERIF_BN': n}, unwind=n + 2, bounded=True, backend='z3', timeout=1200, instance={'n': n}, replay='pairing'))
    Ms = [2, 3, 4, 5, 7, 8, 16, 1000, 1024, 2048] if tier == 'quick' else sorted(set(C13_LISTED[:-1] + list(range(2, 65)) + [100, 255, 256, 257, 4095, 4097, 32767]))
    for M in Ms:
        gs.append(Group('%s.decode.M=%d' % (tag, M), 'c03_encrypt.c', 'h_decode', extract=[(NF, 'modSwitchToTorus32'), (NF, 'approxPhase')],
                        defines={'H_DECODE': None, 'VERIF_MSIZE': '%du' % M}, instance={'Msize': M}, replay='numeric'))
    # TLWE wiring (ring products are monitors: assumed exact negacyclic multiply-accumulate)
    gs.append(Group(tag + '.tLweSymEncrypt', 'c03_encrypt.c', 'h_tLweSymEncrypt', extract=[(TL, 'tLweSymEncrypt')], loops=True, defines={'H_TLWE_ENC': None}, replay='tgswdec'))
    gs.append(Group(tag + '.tLweSymEncryptT', 'c03_encrypt.c', 'h_tLweSymEncrypt', extract=[(TL, 'tLweSymEncryptT')], defines={'H_TLWE_ENC': None, 'ENC_T': None}))
    gs.append(Group(tag + '.tLwePhase', 'c03_encrypt.c', 'h_tLwePhase', extract=[(TL, 'tLwePhase')], loops=True, defines={'H_TLWE_PHASE': None}, replay='tgswdec'))
    gs.append(Group(tag + '.tLweApproxPhase', 'c03_encrypt.c', 'h_tLweApproxPhase', extract=[(TL, 'tLweApproxPhase')], loops=True, defines={'H_TLWE_PHASE': None}, replay='tgswdec'))
    gs.append(Group(tag + '.tLweSymDecrypt+T', 'c03_encrypt.c', 'h_tLweSymDecrypt', extract=[(TL, 'tLweSymDecrypt'), (TL, 'tLweSymDecryptT')], defines={'H_TLWE_DEC': None}, replay='tgswdec'))
    gs.append(Group(tag + '.tGswSymEncrypt+tGswEncryptB', 'c03_encrypt.c', 'h_tGswWrappers', extract=[(TG, 'tGswSymEncrypt'), (TG, 'tGswEncryptB')], defines={'H_TGSWWRAP': None}))
    for (K, L) in ([(1, 2), (2, 3)] if tier == 'quick' else [(1, 1), (1, 2), (1, 3), (1, 4), (2, 2), (2, 3), (3, 2)]):
        gs.append(Group('%s.tGswSymDecrypt.k=%d.l=%d' % (tag, K, L), 'c03_encrypt.c', 'h_tGswSymDecrypt', extract=[(TG, 'tGswSymDecrypt')], loops=True,
                        defines={'H_TGSWDEC': None, 'VERIF_K': K, 'VERIF_L': L}, cbmc=['--memory-leak-check'], instance={'k': K, 'l': L}, replay='tgswdec'))
    # noiseless trivial samples: all-zero mask, b = mu (C14 contract enforced on the real body)
    gs.append(Group(tag + '.dep.lweNoiselessTrivial', 'c14_lwe.c', 'h_lweNoiselessTrivial', extract=[(LF, 'lweNoiselessTrivial')], enforce='lweNoiselessTrivial', loops=True, replay=('lwe', 'lweNoiselessTrivial')))
    return gs


def ksc_inc(T, BB):
    base = 1 << BB
    rows = ' '.join('M(%d, %d)' % (j, d) for j in range(T) for d in range(1, base))
    full = lambda q: '((uint64_t)%dull << %d)' % ((1 << base) - 2, q * base)
    part = lambda q: '((uint64_t)((((uint64_t)1 << (h)) - 1) & ~(uint64_t)1) << %d)' % (q * base)
    mask = ' | '.join('((%d < (j)) ? %s : ((%d == (j)) ? %s : (uint64_t)0))' % (q, full(q), q, part(q)) for q in range(T))
    assert T * base <= 64
    return ('#define KSC_BLOCKS(M) %s\n#define KSC_ROWS(M) %s\n#define KSC_MASK(j, h) (%s)\n' % (' '.join('M(%d)' % q for q in range(T)), rows, mask))


def sampler_state_scan(group):
    """static (syntactic) fact behind "re-seeding with the same seed reproduces the same keys and ciphertexts": libstdc++'s normal_distribution
    caches its second Box-Muller value inside the OBJECT, so a normal_distribution that outlives a call (file scope or `static` local) carries
    randomness across tfhe_random_generator_setSeed.  Every normal_distribution declared in src/libtfhe must therefore be an automatic local.
    (uniform_int_distribution keeps no state between draws; the three file-scope uniform objects are fine.)"""
    out = []
    nfound = 0
    for f in sorted(os.listdir(X.SRC)):
        if not f.endswith('.cpp'):
            continue
        src = open(os.path.join(X.SRC, f), 'rb').read().decode('latin-1')
        code = re.sub(r'/\*.*?\*/', lambda m: ' ' * len(m.group(0)), src, flags=re.S)
        code = re.sub(r'//[^\n]*', lambda m: ' ' * len(m.group(0)), code)
        for m in re.finditer(r'\b((?:static|thread_local|extern)\s+)?(?:std::)?normal_distribution\s*<[^>]*>\s*(\w+)', code):
            nfound += 1
            depth = code.count('{', 0, m.start()) - code.count('}', 0, m.start())
            persistent = depth == 0 or bool(m.group(1))
            line = code.count('\n', 0, m.start()) + 1
            out.append(('%s.%s.line%d.automatic' % (f, m.group(2), line), not persistent,
                        'static fact: normal_distribution object `%s` (%s:%d) is %s' % (m.group(2), f, line,
                        'an automatic local: its cached value cannot survive a re-seed' if not persistent else 'PERSISTENT (file scope / static): its cached second value survives tfhe_random_generator_setSeed, so the same seed no longer reproduces the same samples after an odd number of draws')))
    if nfound == 0:
        raise X.ExtractionError('no normal_distribution declaration found in src/libtfhe (the gaussian sampler moved?)')
    return out


def c07_groups(tier, tag='C07'):
    gs = enc_groups(tag)
    gs.append(Group(tag + '.tfhe_createLweBootstrappingKey', 'c03_encrypt.c', 'h_createBootstrappingKey', extract=[(BN_, 'tfhe_createLweBootstrappingKey')],
                    loops=True, defines={'H_BKCREATE': None}, replay='gate'))
    gs.append(Group(tag + '.tGswSymEncryptInt', 'c03_encrypt.c', 'h_tGswSymEncryptInt', extract=[(TG, 'tGswSymEncryptInt')], defines={'H_TGSWENC': None}))
    gs.append(Group(tag + '.tGswEncryptZero', 'c03_encrypt.c', 'h_tGswEncryptZero', extract=[(TG, 'tGswEncryptZero')], loops=True, defines={'H_TGSWZERO': None}, replay='tgswdec'))
    for (n_, t_, bb_) in ([(1, 2, 1), (2, 1, 2), (2, 2, 1)] if tier == 'quick' else [(1, 2, 1), (2, 1, 2), (2, 2, 1), (1, 1, 3), (3, 2, 2), (2, 3, 1)]):
        gs.append(Group('%s.lweCreateKeySwitchKey.bounded.n=%d.t=%d.basebit=%d' % (tag, n_, t_, bb_), 'c03_encrypt.c', 'h_b_createKeySwitchKey',
                        extract=[(KS, 'lweCreateKeySwitchKey', S_)], defines={'H_KSCREATE': None, 'VERIF_KS_N': n_, 'VERIF_KS_T': t_, 'VERIF_KS_BB': bb_, 'KS_ALPHA_SYMBOLIC': None},
                        unwind=n_ * t_ * (1 << bb_) + 3, bounded=True, timeout=900, instance={'n': n_, 't': t_, 'basebit': bb_, 'alpha': 'symbolic in [0,1]'}))
    for (t_, bb_) in ([(8, 2), (2, 1), (3, 3), (1, 2)] if tier == 'quick' else [(8, 2), (2, 1), (3, 3), (1, 4), (15, 2), (4, 4), (5, 3), (16, 1), (1, 1), (2, 5)]):
        gs.append(Group('%s.lweCreateKeySwitchKey.unbounded.t=%d.basebit=%d' % (tag, t_, bb_), 'c03_encrypt.c', 'h_createKeySwitchKey_unbounded',
                        extract=[(KS, 'lweCreateKeySwitchKey', S_)], loops=True, defines={'H_KSCREATE_U': None, 'VERIF_KS_T': t_, 'VERIF_KS_BB': bb_},
                        gen={'ksc.inc': ksc_inc(t_, bb_)}, timeout=1500, instance={'t': t_, 'basebit': bb_, 'n': 'symbolic', 'index': 'symbolic', 'alpha': 'symbolic in [0,1]'}, replay='kscreate'))
        gs[-1].arb_bound = 1                                       # bounded arbiter: n = 1 (each unwound draw iteration adds an addressed object and IEEE operations)
        gs[-1].arb_unwind = t_ * ((1 << bb_) - 1) + 3
    for K in ([1, 2] if tier == 'quick' else [1, 2, 3]):
        gs.append(Group('%s.tLweKeyGen.k=%d' % (tag, K), 'c03_encrypt.c', 'h_tLweKeyGen', extract=[(TL, 'tLweKeyGen', S_)], loops=True,
                        defines={'H_TLWEKEYGEN': None, 'VERIF_K': K}, instance={'k': K}, replay=('keygen', 'tlwe')))
    gs.append(Group(tag + '.torusPolynomialUniform', 'c03_encrypt.c', 'h_torusPolynomialUniform', extract=[(TF, 'torusPolynomialUniform', S_)], loops=True, defines={'H_POLYUNIFORM': None}))
    gs.append(Group(tag + '.tGswKeyGen.k=1', 'c03_encrypt.c', 'h_tLweKeyGen', extract=[(TL, 'tLweKeyGen', S_), (TG, 'tGswKeyGen')], loops=True,
                    defines={'H_TLWEKEYGEN': None, 'VERIF_K': 1, 'VIA_TGSW': None}, instance={'k': 1}, replay=('keygen', 'tgsw')))
    gs.append(Group(tag + '.tGswSymEncrypt+tGswEncryptB', 'c03_encrypt.c', 'h_tGswWrappers', extract=[(TG, 'tGswSymEncrypt'), (TG, 'tGswEncryptB')], defines={'H_TGSWWRAP': None}))
    gs.append(Group(tag + '.new_random_gate_bootstrapping_secret_keyset', 'c03_encrypt.c', 'h_keysetgen',
                    extract=[(GBS, 'TFheGateBootstrappingCloudKeySet::TFheGateBootstrappingCloudKeySet'), (GBS, 'TFheGateBootstrappingSecretKeySet::TFheGateBootstrappingSecretKeySet'),
                             (GB, 'new_random_gate_bootstrapping_secret_keyset')], defines={'H_KEYSETGEN': None}, unwind=14))
    sg = StaticGroup(tag + '.static.no_persistent_gaussian_sampler', sampler_state_scan)
    sg.replay = ('keygen', 'reseed')
    gs.append(sg)
    for A in ['0x1p-25', '7.18e-9']:
        gs.append(Group('%s.tLweSymEncryptZero.alpha=%s' % (tag, A), 'c03_encrypt.c', 'h_tLweSymEncryptZero', extract=[(TL, 'tLweSymEncryptZero')],
                        loops=True, defines={'H_TLWEZERO': None, 'VERIF_ALPHA': A}, instance={'alpha': A}, replay='tgswdec'))
    return gs


TGF = 'tgsw-fft-operations.cpp'


ADDMU_BACKEND = None


def c09_groups(tier, tag='C09'):
    gs = []
    shapes = [(1, 2), (1, 3), (2, 2)] if tier == 'quick' else [(1, 1), (1, 2), (1, 3), (1, 4), (2, 2), (2, 3), (3, 2)]
    for (K, L) in shapes:
        d = {'VERIF_K': K, 'VERIF_L': L}
        U = (K + 1) * L + 3
        inst = {'k': K, 'l': L}
        gs.append(Group('%s.tGswExternMulToTLwe.k=%d.l=%d' % (tag, K, L), 'c09_extprod.c', 'h_tGswExternMulToTLwe', extract=[(TG, 'tGswExternMulToTLwe')],
                        defines=dict(d, H_EXTMUL=None), unwind=U, cbmc=['--memory-leak-check'], instance=inst))
        gs.append(Group('%s.tGswExternProduct.k=%d.l=%d' % (tag, K, L), 'c09_extprod.c', 'h_tGswExternMulToTLwe', extract=[(TG, 'tGswExternProduct')],
                        defines=dict(d, H_EXTMUL=None, EXT_PRODUCT=None), unwind=U, cbmc=['--memory-leak-check'], instance=inst))
        gs.append(Group('%s.tGswFFTExternMulToTLwe.k=%d.l=%d' % (tag, K, L), 'c09_extprod.c', 'h_tGswFFTExternMulToTLwe', extract=[(TGF, 'tGswFFTExternMulToTLwe')],
                        defines=dict(d, H_FFTEXTMUL=None), unwind=U, cbmc=['--memory-leak-check'], instance=inst))
        gs.append(Group('%s.tGswAddH.k=%d.l=%d' % (tag, K, L), 'c09_extprod.c', 'h_gadget_rows', extract=[(TG, 'tGswAddH')], defines=dict(d, H_ROWS=None), unwind=U, instance=inst, replay=('gadget', 'tGswAddH')))
        for M in ['0', '1', '2', '3']:
            gs.append(Group('%s.tGswAddMuIntH.k=%d.l=%d.m=%s' % (tag, K, L, M), 'c09_extprod.c', 'h_gadget_rows', extract=[(TG, 'tGswAddMuIntH')],
                            defines=dict(d, H_ROWS=None, ROWS_INT=None, VERIF_MCONST=M), unwind=U, instance=dict(inst, message=M), replay=('gadget', 'tGswAddMuIntH')))
        rows2 = '#define ROWS2_COMMA(M) %s\n' % ', '.join('M(%d)' % q for q in range((K + 1) * L))
        gs.append(Group('%s.tGswAddMuH.k=%d.l=%d' % (tag, K, L), 'c09_extprod.c', 'h_tGswAddMuH', extract=[(TG, 'tGswAddMuH')], loops=True, backend=ADDMU_BACKEND,
                        defines=dict(d, H_ADDMUH=None, VERIF_BGBIT={1: 8, 2: 10, 3: 7, 4: 8}[L]), gen={'rows2.inc': rows2}, timeout=1200, instance=dict(inst, Bgbit={1: 8, 2: 10, 3: 7, 4: 8}[L]), replay=('gadget', 'tGswAddMuH')))
        gs.append(Group('%s.rowwise.k=%d.l=%d' % (tag, K, L), 'c09_extprod.c', 'h_tgsw_rowwise',
                        extract=[(TGF, 'tGswToFFTConvert'), (TG, 'tGswClear'), (TG, 'tGswMulByXaiMinusOne'), (TGF, 'tGswFromFFTConvert'), (TGF, 'tGswFFTClear'), (TGF, 'tGswFFTAddH')],
                        defines=dict(d, H_CONVERT=None), unwind=U, instance=inst))
    TLF = 'tlwe-fft-operations.cpp'
    for K in ([1, 2] if tier == 'quick' else [1, 2, 3]):
        gs.append(Group('%s.tlwe_rowwise.k=%d' % (tag, K), 'c09_extprod.c', 'h_tlwe_rowwise',
                        extract=[(TLF, 'tLweToFFTConvert'), (TLF, 'tLweFromFFTConvert'), (TLF, 'tLweFFTClear'), (TLF, 'tLweFFTAddMulRTo'), (TL, 'tLweAddMulRTo'), (TF, 'intPolynomialNormSq2')],
                        defines={'H_TLWEROW': None, 'VERIF_K': K}, unwind=max(K + 3, 6), instance={'k': K}))
    gs.append(Group(tag + '.tGswNoiselessTrivial', 'c09_extprod.c', 'h_tGswNoiselessTrivial', extract=[(TG, 'tGswNoiselessTrivial')], defines={'H_TRIVIAL': None}))
    for (L, B) in ([(3, 7), (2, 10), (4, 8)] if tier == 'quick' else [(l, b) for (l, b) in valid_layouts() if l <= 8]):
        for M in ['1', '3', '(-1)']:
            gs.append(Group('%s.lemma.truncation.l=%d.Bgbit=%d.m=%s' % (tag, L, B, M), 'c09_extprod.c', 'h_lemma_truncation',
                            defines={'H_TRUNC': None, 'VERIF_L': L, 'VERIF_BGBIT': B, 'VERIF_MCONST': M}, unwind=L + 2, backend='z3', instance={'l': L, 'Bgbit': B, 'm': M}))
    # blind rotation loop and CMux step (shared with C04), decomposition contract (shared with C12)
    gs += [g for g in boot_groups(tag) if 'blindRotate.' in g.name + '.' or 'blindRotate_FFT' in g.name or 'MuxRotate' in g.name]
    gs += [g for g in c12_groups('quick', tag) if 'DecompH.l=3.Bgbit=7' in g.name or 'DecompH.l=2.Bgbit=10' in g.name]
    # the CMux step's first operation, for EVERY exponent in [0, 2N) including 0 (a blind rotation may rotate by X^0 instead of skipping):
    # (X^a - 1) * acc at the TLWE level against the polynomial contract, and the polynomial contract itself (shared with C14 / C11)
    gs += [g for g in tlwe_groups(tag, tier) if '.tLweMulByXaiMinusOne.' in g.name]
    gs += [g for g in poly_mono_groups(tag) if g.name.endswith('.torusPolynomialMulByXaiMinusOne')]
    return gs


IO = 'tfhe_io.cpp'


def text_layer_native(group):
    """bounded stand-in (native, not a proof) for the text property sections, which no C05 contract reaches (std::map, getline, stod: C++ library
    code): the real library exports and re-imports LweParams for 100 pairs of noise levels (among them every default, 2^-25, 7.18e-9, 1/3) over the
    C++ stream transport AND the FILE transport, and the two default parameter sets; every field must come back bit-exact, re-export must give the
    same bytes, both transports must produce the same bytes."""
    import nreplay
    r = nreplay.io_r(group, {}, 'C05text')
    det = str(r.get('detail', ''))[:400].replace('\n', ' ')
    if not r.get('confirmed') and 'satisfies the oracle' not in det:
        raise X.ExtractionError('native text-layer oracle could not be run: %s' % det)
    return [('text_layer.round_trip_exact_on_both_transports', not r.get('confirmed'),
             'bounded native check of the text sections: parameter objects with 100 noise-level pairs and the default parameter sets come back bit-exact '
             'over the C++ stream and the FILE transport' + ('' if not r.get('confirmed') else ': ' + det))]


def stream_adapter_native(group):
    """bounded stand-in (native, not a proof) for the two stream adapters the C18 reader contracts ASSUME (tfhe_generic_streams.cpp,
    StdIstream::fread / CIstream::fread: istream::read and ::fread are outside CBMC's C++ front end): the real library imports every proper
    prefix and every foreign type tag of the exports of seven small objects over the C++ stream transport and of two over the FILE transport,
    each in a forked child; a short read must leave the stream failed (C++) or terminate the process (FILE)."""
    import nreplay
    r = nreplay.io_r(group, {}, 'C18')
    det = str(r.get('detail', ''))[:400].replace('\n', ' ')
    if not r.get('confirmed') and 'satisfies the oracle' not in det:
        raise X.ExtractionError('native stream-adapter oracle could not be run: %s' % det)
    r2 = nreplay.io_r(group, {}, 'C18nl')
    det2 = str(r2.get('detail', ''))[:300].replace('\n', ' ')
    if not r2.get('confirmed') and 'satisfies the oracle' not in det2:
        raise X.ExtractionError('native stream-adapter oracle (C18nl) could not be run: %s' % det2)
    nl = ('text_section.minus_final_newline.stream_transport', not r2.get('confirmed'),
          'bounded native check: the text export of a parameter object without its final newline is rejected over the C++ stream transport'
          + ('' if not r2.get('confirmed') else ': ' + det2))
    return [nl, ('stream_adapters.short_read_or_foreign_tag_never_accepted', not r.get('confirmed'),
             'bounded native check of StdIstream::fread / CIstream::fread under the real readers: every proper prefix and every foreign type tag '
             'of small binary exports, and every proper prefix of three text exports on both transports (except the one above), is rejected '
             '(stream failed, or process terminated)' + ('' if not r.get('confirmed') else ': ' + det))]


def c18_groups(tier, tag='C18'):
    gs = [Group(tag + '.read_lweSample+lweKey', 'c18_readers.c', 'h_read_lwe', extract=[(IO, 'read_lweSample'), (IO, 'read_lweKey_content')], defines={'H_LWE': None}, timeout=1200, replay='io18')]
    for (K, L) in ([(1, 2), (2, 2)] if tier == 'quick' else [(1, 1), (1, 2), (1, 3), (2, 2), (2, 3), (3, 2)]):
        d = {'VERIF_K': K, 'VERIF_L': L}
        inst = {'k': K, 'l': L}
        gs.append(Group('%s.read_tLweSample+keys.k=%d.l=%d' % (tag, K, L), 'c18_readers.c', 'h_read_tlwe',
                        extract=[(IO, 'read_tLweSample'), (IO, 'read_tLweKey_content'), (IO, 'read_tGswKey_content')], defines=dict(d, H_TLWE=None), unwind=K + 3, timeout=1200, instance=inst, replay='io18'))
        gs.append(Group('%s.read_tGswSample.k=%d.l=%d' % (tag, K, L), 'c18_readers.c', 'h_read_tgsw', extract=[(IO, 'read_tLweSample'), (IO, 'read_tGswSample')],
                        defines=dict(d, H_TGSW=None), unwind=(K + 1) * L + 3, timeout=1200, instance=inst, replay='io18'))
        gs.append(Group('%s.read_LweBootstrappingKey_content.k=%d.l=%d' % (tag, K, L), 'c18_readers.c', 'h_read_bk', extract=[(IO, 'read_LweBootstrappingKey_content')],
                        defines=dict(d, H_BK=None), unwind=(K + 1) * L + 3, timeout=1200, instance=dict(inst, n=2), replay='io18'))
    gs.append(Group(tag + '.read_lweKeySwitchKey_content', 'c18_readers.c', 'h_read_ks', extract=[(IO, 'read_lweKeySwitchKey_content')], defines={'H_KS': None}, unwind=10,
                    timeout=1200, instance={'n': 2, 't': 2, 'basebit': 1}, replay='io18'))
    sg = StaticGroup(tag + '.stream_adapters.native.bounded', stream_adapter_native,
                     note='bounded: exhaustive over prefixes / tags of seven small objects, native execution of the real library (not a proof)')
    sg.bounded = True
    sg.replay = 'io18'
    gs.append(sg)
    return gs


GBS = 'tfhe_gate_bootstrapping_structures.cpp'


def c17_groups(tier, tag='C17'):
    """C17 and C05 share one harness; the property selects which assertions are compiled in (PROP_C17 / PROP_C05)"""
    P = {'PROP_' + tag: None}
    c05 = tag == 'C05'
    gs = [Group(tag + '.keyset.sections', 'c17_io.c', 'h_struct',
                extract=[(IO, f) for f in ('write_lweKey', 'write_tGswKey', 'write_lweBootstrappingKey', 'write_tfheGateBootstrappingCloudKeySet', 'write_tfheGateBootstrappingSecretKeySet')]
                + [(GBS, 'TFheGateBootstrappingCloudKeySet::TFheGateBootstrappingCloudKeySet'), (GBS, 'TFheGateBootstrappingSecretKeySet::TFheGateBootstrappingSecretKeySet'),
                   (IO, 'read_new_tfheGateBootstrappingCloudKeySet'), (IO, 'read_new_tfheGateBootstrappingSecretKeySet')],
                defines=dict(P, H_STRUCT=None), unwind=14, timeout=600, replay='io'),
          Group(tag + '.bootstrappingkey.sections', 'c17_io.c', 'h_bkstruct',
                extract=[(IO, 'struct:LweKeySwitchParameters'), (IO, 'write_lweBootstrappingKey'), (IO, 'read_new_lweBootstrappingKey')], defines=dict(P, H_BKSTRUCT=None), unwind=14, timeout=600, replay='io')]
    if c05:
        gs.append(Group(tag + '.key_objects.sections', 'c17_io.c', 'h_keyobj',
                        extract=[(IO, 'struct:LweKeySwitchParameters')] + [(IO, f) for f in ('write_lweKey', 'read_new_lweKey', 'write_tLweKey', 'read_new_tLweKey', 'write_tGswKey', 'read_new_tGswKey',
                                                                                         'write_lweKeySwitchKey', 'read_new_lweKeySwitchKey')],
                        defines=dict(P, H_KEYOBJ=None), unwind=14, timeout=600, replay='io'))
    keyfns = ['write_lweKey_content', 'read_lweKey_content', 'write_tGswKey_content', 'read_tGswKey_content']
    if c05:
        keyfns += ['write_tLweKey_content', 'read_tLweKey_content', 'write_lweSample', 'read_lweSample', 'write_tLweSample', 'read_tLweSample']
    for K in ([1, 2] if tier == 'quick' else [1, 2, 3]):
        gs.append(Group('%s.key+sample_sections.k=%d' % (tag, K), 'c17_io.c', 'h_keys', extract=[(IO, f) for f in keyfns],
                        defines=dict(P, H_KEYS=None, VERIF_K=K), unwind=K + 3, timeout=600, instance={'k': K}, replay='io'))
    gs.append(Group(tag + '.write+read_lweKeySwitchKey_content', 'c17_io.c', 'h_ks', extract=[(IO, 'write_LweKeySwitchKey_content'), (IO, 'read_lweKeySwitchKey_content')],
                    defines=dict(P, H_KS=None), unwind=10, timeout=1200, instance={'n': 2, 't': 2, 'basebit': 1}, replay='io'))
    for (K, L) in ([(1, 2), (2, 2)] if tier == 'quick' else [(1, 1), (1, 2), (1, 3), (2, 2), (2, 3), (3, 2)]):
        d = dict(P, VERIF_K=K, VERIF_L=L)
        gs.append(Group('%s.write+read_LweBootstrappingKey_content.k=%d.l=%d' % (tag, K, L), 'c17_io.c', 'h_bk',
                        extract=[(IO, 'write_LweBootstrappingKey_content'), (IO, 'read_LweBootstrappingKey_content')],
                        defines=dict(d, H_BK=None), unwind=(K + 1) * L + 3, timeout=1200, instance={'k': K, 'l': L, 'n': 2}, replay='io'))
        if c05:
            gs.append(Group('%s.write+read_tGswSample.k=%d.l=%d' % (tag, K, L), 'c17_io.c', 'h_tgsw',
                            extract=[(IO, 'write_tLweSample'), (IO, 'read_tLweSample'), (IO, 'write_tGswSample'), (IO, 'read_tGswSample')],
                            defines=dict(d, H_TGSW=None), unwind=(K + 1) * L + 3, timeout=1200, instance={'k': K, 'l': L}, replay='io'))
    return gs


def text_format_scan(group):
    """supporting static fact for the text layer of C05, read off the clang AST of the real tfhe_generic_streams.cpp on every run: the printf
    conversion MapTextModeProperties::setProperty_double uses, and that getProperty_double parses with a C library decimal parser.
    Decision rule (the arithmetic behind it is the classical round-trip theorem, not re-proved here): 17 significant decimal digits
    (%.17g, %.16e) or a hexadecimal mantissa (%a) identify every finite double, so a correctly rounding parser restores it; a FIXED number
    p of decimals (%.pf) prints every |x| < 0.5e-p as zero and keeps at most p digits of the rest: refuted, with the witness value.
    Anything else: undecided."""
    cpp = os.path.join(X.SRC, 'tfhe_generic_streams.cpp')
    fmts, parsers = [], set()

    def lits(o, acc):
        if o.get('kind') == 'StringLiteral':
            acc.append(o.get('value', ''))
        for c in o.get('inner', []) or []:
            lits(c, acc)

    def refs(o, acc):
        if o.get('kind') == 'DeclRefExpr':
            acc.add(o.get('referencedDecl', {}).get('name'))
        for c in o.get('inner', []) or []:
            refs(c, acc)

    def visit(o):
        if o.get('kind') == 'CXXMethodDecl' and any(c.get('kind') == 'CompoundStmt' for c in o.get('inner', []) or []):
            if o.get('name') == 'setProperty_double':
                lits(o, fmts)
            if o.get('name') == 'getProperty_double':
                refs(o, parsers)
        for c in o.get('inner', []) or []:
            visit(c)
    for o in X.clang_ast(cpp, 'MapTextModeProperties'):
        visit(o)
    fm = [json.loads(f) if f.startswith('"') else f for f in fmts]
    fm = [f for f in fm if '%' in f]
    if len(fm) != 1:
        raise X.ExtractionError('setProperty_double: expected exactly one format string, found %r' % (fm,))
    if not (parsers & {'stold', 'stod', 'strtod', 'strtold', 'atof'}):
        raise X.ExtractionError('getProperty_double: no C library decimal parser referenced (%s)' % sorted(x for x in parsers if x))
    f = fm[0]
    m = re.match(r'^%(?:\.(\d+))?[lL]?([fFeEgGaA])$', f)
    if not m:
        raise X.ExtractionError('setProperty_double: format %r is not a single floating conversion' % f)
    prec = int(m.group(1)) if m.group(1) is not None else None
    conv = m.group(2).lower()
    if conv == 'a' and (prec is None or prec >= 13):
        ok, why = True, 'hexadecimal mantissa: exact'
    elif conv == 'g' and prec is not None and prec >= 17:
        ok, why = True, '%d significant digits identify every finite double' % prec
    elif conv == 'e' and prec is not None and prec >= 16:
        ok, why = True, '%d significant digits identify every finite double' % (prec + 1)
    elif conv == 'f':
        p_ = 6 if prec is None else prec
        ok, why = False, ('a fixed number of %d decimals: every |x| < 0.5e-%d is written as zero and the rest keeps at most %d decimals -- e.g. the default sets\' '
                          '2^-25 = 2.98023223876953125e-08 and 7.18e-9 are written 0.00000003 / 0.00000001 for 8 decimals') % (p_, p_, p_)
    elif conv in ('g', 'e', 'a'):
        need = {'g': 17, 'e': 16, 'a': 13}[conv]
        ok, why = False, 'precision %s keeps fewer than 17 significant digits (needs >= %d): distinct doubles are written identically' % (prec, need)
    else:
        raise X.ExtractionError('unexpected conversion in %r' % f)
    return [('setProperty_double.format_roundtrips', ok, 'static AST fact: real-valued parameters are written with "%s" and parsed back with %s: %s'
             % (f, '/'.join(sorted(parsers & {'stold', 'stod', 'strtod', 'strtold', 'atof'})), why))]


def fftmul_groups(tag):
    PL = 'polynomials.cpp'
    return [Group(tag + '.fft_products.wiring', 'c09_extprod.c', 'h_fftmul', extract=[(PL, 'torusPolynomialMultFFT'), (PL, 'torusPolynomialAddMulRFFT'), (PL, 'torusPolynomialSubMulRFFT')],
                  defines={'H_FFTMUL': None}, cbmc=['--memory-leak-check'])]


def wrapper_groups(tag):
    import wrappers as W
    try:
        names = W.wrapper_names()
    except Exception:
        names = []
    return [Group(tag + '.api_wrappers.both_transports', 'c17_wrappers.c', 'h_wrappers', extract=[(IO, w) for w in names],
                  gen={'wrappers.inc': lambda: W.generate()[0]}, timeout=900, replay='io', instance={'wrappers': len(names)})]


def c17_all_groups(tier):
    return c17_groups(tier, 'C17') + wrapper_groups('C17')


def c18_all_groups(tier):
    return c18_groups(tier, 'C18') + wrapper_groups('C18')


def c05_groups(tier):
    gs = c17_groups(tier, 'C05') + wrapper_groups('C05')
    ng = StaticGroup('C05.text_layer.native.bounded', text_layer_native,
                     note='bounded: native execution of the real text layer on both transports for 100 noise-level pairs and the two default parameter sets (not a proof)')
    ng.bounded = True
    ng.replay = 'iotext'
    gs.append(ng)
    sg = StaticGroup('C05.static.text_double_format', text_format_scan)
    sg.replay = 'iotext'
    gs.append(sg)
    return gs


PROPS = {
    'C13': {
        'groups': c13_groups,
        'level': 'proof',
        'explanation': 'Each group is a complete proof over all 2^32 phases / all mu in [0,M) for one constant message-space size M '
                       '(the 64-bit divider with a symbolic divisor does not terminate in any installed solver, so M is enumerated).',
        'assumptions': STD_ASSUME + ['message-space sizes outside the enumerated list (quick: the 13 values of the property; thorough: [2,256], all 2^k, 84 seeded values in [257,2^15]) are not covered'],
        'trusted': [],
    },
    'C14': {
        'groups': c14_groups,
        'level': 'proof',
        'explanation': 'Coordinate-wise contracts (ghost index = every coordinate) on the real bodies of the LWE / polynomial / TLWE linear '
                       'operations and of sample/key extraction, for every n, N >= 1 (symbolic, loop contracts) and k in {1,2}(,3); '
                       'step-linearity and extraction-term lemmas loop-free.',
        'assumptions': STD_ASSUME + [
            'phase-level conclusion: lifting "every coordinate and b are affine" + "the step acc += a*s is linear" to the inner product sum_i a_i*s_i is induction on n, not machine-checked (DESIGN 2.3)',
            'subtract-and-multiply variants (lweSubMulTo, torusPolynomialSubMulZ(To), tLweSubMulTo): coordinate clause proved for the multiplier constants p in {0,1,-1,2,3,-8,65536,INT32_MIN}, not for symbolic p (32-bit multiplier congruence under an index equality is not decided by minisat/cadical/kissat/z3/cvc5 within 5 min; the add variants are decided by cvc5 for all p)',
            'variance annotation of lweAddMulTo/lweSubMulTo (IEEE product): bounded stand-in only (n <= 3, p in {0,1,-1,3,-181,32767}), labelled bounded; tLweAddMulTo/tLweSubMulTo: proved for every ring degree but for enumerated multipliers p only (same list; the coefficient-wise callee is a monitor there)',
            'AVX2 inline-assembly subtraction intVecSubTo_avx (optimised builds) is not seen: the proof covers the #else scalar loop of lweSubTo',
        ],
        'trusted': [],
    },
    'C12': {
        'groups': c12_groups,
        'level': 'proof',
        'explanation': 'Contract on the real scalar body of tGswTorus32PolynomialDecompH (4 loops, nested) for symbolic N and all 2^32 values of the '
                       'watched coefficient per enumerated layout (l,Bgbit): balanced digits, recomposition bound, input restored, uniform in the position; '
                       'TLWE wrapper against that contract; TGswParams constructor fields; loop-free arithmetic lemma for the layout grid.',
        'assumptions': STD_ASSUME + [
            'AVX2 inline-assembly path of tGswTorus32PolynomialDecompH (optimised builds) is not seen; "vectorised and scalar builds give identical digits" is not decided',
            'layouts outside the enumerated grid are not covered (quick: 5 layouts for the function contract, 8 for lemma/constructor; thorough: all valid layouts for lemma/constructor, l <= 6 and (8,4) for the function contract; (16,2) times out after 30 min)',
        ],
        'trusted': [],
    },
    'C08': {
        'groups': c08_groups,
        'level': 'proof',
        'explanation': 'Arithmetic of key switching decided completely (all 2^32 mask values, all valid (t,basebit) symbolic): round-to-nearest digits, '
                       'centred truncation error <= 2^-(t*basebit+1), carries and wrap; row messages sum to s_i times the rounded value; lweKeySwitch wiring. '
                       'That the real translate loop subtracts exactly the rows those digits select is proved for every n (arbitrary mask, watched index), and so is the 3-level '
                       'table the constructor builds; only the two together on one concrete table is a bounded stand-in.',
        'assumptions': STD_ASSUME + [
            'lweKeySwitchTranslate_fromArray, unbounded in n (loop contracts on both loops): (a) ARBITRARY mask, one watched index g_i (symbolic): ks[g_i] points to its own well-formed row block, every other ks[i] to a second one (__CPROVER_array_set gives every index a valid row without a quantifier): in iteration g_i exactly the rows of the non-zero round-to-nearest digits of a[g_i] are subtracted, once each, no other iteration touches them, every other access stays inside its block; (a\') all coordinates equal: exactly NZ(A) subtractions per index, n*NZ(A) in total; (b) the 3-level table built by the constructor, unbounded in n: second-level entry p points to element p*base of the contiguous array, first-level entry i to second-level entry i*t; (c) constructor and translate together on one concrete table: bounded stand-in (n in {1,2,3}(,5)), labelled bounded; layouts with t > 15 only in (c)',
            'phase conclusion phase(out) = phase(in) + sum_i s_i(a_i - abar_i) - sum noise(rows used): lemma + induction over n, the induction is not machine-checked',
            'noise statistics with a real noisy key-switching key: not decided (statistical)',
            'lweSubTo is the AVX2 assembly in optimised builds; its scalar body is proved in C14',
        ],
        'trusted': [],
    },
    'C04': {
        'groups': c04_groups,
        'level': 'proof',
        'explanation': 'Every exact step between the input sample and the output sample, FFT and coefficient-domain variants, n and N symbolic: '
                       'modulus switch of b and of every a_i to Z_2N into a scratch array of n entries, constant test polynomial, X^(2N-barb) start, '
                       'ping-pong rotation sequence (each index once iff exponent non-zero, in order, with its own key row), coefficient-0 extraction, '
                       'key switch; index lemma over all 2N values of p.',
        'assumptions': STD_ASSUME + [
            'numerical content of one CMux step (external product by a TGSW encryption of bit s multiplies the phase by X^(a*s) up to noise): assumed (FFT / statistical); the call structure of the step is proved',
            '"small output noise that does not depend on x": not decided (statistical)',
            'modSwitchFromTorus32 range postcondition for Msize = 2N outside the enumerated grid is assumed at the call site',
            'callees of the orchestration functions are monitor shims that write ghost state only; their own contracts are enforced in the dep.* groups (MulByXai, extraction, trivial sample) or in C09/C12/C14',
        ],
        'trusted': [],
    },
    'C01': {
        'groups': c01_groups,
        'level': 'proof',
        'explanation': 'Gate layer for every input dimension n (symbolic): the sample each gate hands to the sign bootstrapping is exactly the affine '
                       'form C + alpha*ca + beta*cb (every mask coordinate and b), one bootstrap with mu = 1/8 into result, temporary released; '
                       'truth-table lemma over all admissible phases (enc(bit) +- 1/32): that form lies >= 1/16 inside the half-torus selected by the '
                       "gate's Boolean function; MUX: both pre-bootstrap forms, 1/8 + u1 + u2, one key switch; NOT/COPY/CONSTANT exact.",
        'assumptions': STD_ASSUME + [
            'assumed contract of tfhe_bootstrap_FFT / tfhe_bootstrap_woKS_FFT: returns a sample of phase +-mu within 1/32, sign = half-torus of phase(x) when phase(x) is at least 1/16 from 0 and 1/2 (statistical + FFT numerics; its exact skeleton is C04)',
            'assumed contract of lweKeySwitch for MUX (C08)',
            '"both parameter sets, every FFT back end, both builds": covered only in that the gate layer is parameter- and back-end-independent code',
            'phase-level reading of the coordinate-wise affine form: induction on n, not machine-checked (DESIGN 2.3)',
        ],
        'trusted': [],
    },
    'C19': {
        'groups': c19_groups,
        'level': 'proof',
        'explanation': 'One loop-free (constructor loops unwound to l <= 3) proof over all 2^32 values of lambda through the real selector, both static '
                       'parameter constructors, the new_/alloc_/init_ wrappers and the four C++ constructors: case split, every documented field value, '
                       'structural constraints, derived fields; both abort paths reachable and taken only for out-of-range lambda.',
        'assumptions': STD_ASSUME + [
            'pow(2.,-15) and pow(2.,-25) return the exact powers of two (assumed contract of libm)',
            'die_dramatically aborts before anything else is observable (its body uses iostream / throw and is not extractable)',
            'TfheGarbageCollector::register_param is a stub (std::vector)',
            '"at least 12 standard deviations of decoding margin under the library\'s own noise formulas": not decided here (the formulas are not code of the library)',
        ],
        'trusted': [],
    },
    'C11': {
        'groups': c11_groups,
        'level': 'proof',
        'explanation': 'Monomial products (X^a and X^a-1, every a in [0,2N)) and coefficient-wise operations: contracts on the real bodies for symbolic N; '
                       'monomial algebra lemma over the postcondition index/sign function (X^a*X^b = X^(a+b mod 2N), X^N = -1). Schoolbook and Karatsuba '
                       'products: bounded stand-ins against the ring definition (never counted as proved).',
        'assumptions': STD_ASSUME + [
            'memory safety and frames of the schoolbook kernels, of the recursive Karatsuba kernel (every size) and of its three wrappers (R of 2N-1 entries, 16N bytes of scratch): proved unbounded; their VALUES are only bounded stand-ins, next two items',
            'schoolbook product: bounded stand-in, N in {1,2,4,8,16}(,32,64), coefficients fully symbolic (INT32_MIN included), z3',
            'Karatsuba (plain / accumulate / subtract): bounded stand-in at N = 16 on symbolic basis pairs (X^i, c*X^j); the extension to all inputs by bilinearity of the routine is not machine-checked; fully symbolic Karatsuba is out of reach of every installed solver',
            'monomial algebra lemma: N <= 2^16 (quick) / 2^20 (thorough)',
            'subtract-and-multiply coefficient-wise variants: multiplier constants enumerated (see C14)',
            'FFT-based products of polynomials.cpp (torusPolynomialMultFFT / AddMulRFFT / SubMulRFFT): the wiring is proved (operands, order, = / += / -=, temporaries); the transforms and the Lagrange-domain product are monitors, their numerical content is C10 (not applicable)',
        ],
        'trusted': [],
    },
    'C15': {
        'groups': c15_groups,
        'select': sel_c15,
        'level': 'proof',
        'explanation': 'The frame obligations (assigns-clause instrumentation of goto-instrument --dfcc: every write of a function under contract is checked '
                       'against its assigns clause, which never names an input, key or parameter object) and the explicit "inputs untouched" / "restored" '
                       'obligations of the gate, bootstrapping, key-switch, extraction and decomposition groups; every gate under all five aliasing patterns; '
                       'no-RNG as a static AST fact (no evaluation function references the generator, a sampler or an encryption/key-generation routine).',
        'assumptions': STD_ASSUME + [
            'keys and inputs untouched INSIDE the FFT / assembly leaves (external product numerics, FFT transforms): not seen',
            'no-RNG is a clang-AST reference scan over the evaluation functions listed in tools/props.py:EVAL_FUNCTIONS (direct references); it is a supporting static fact, not a CBMC obligation',
            'only obligations of class assigns/frame/untouched/restored are counted for this property; the functional obligations of the same runs are reported under C01/C04/C08/C12/C14',
        ],
        'trusted': [],
    },
    'C16': {
        'groups': c16_groups,
        'select': sel_c16,
        'level': 'proof',
        'explanation': 'CBMC safety obligations (pointer dereference, bounds, invalid/freed pointer, shift width, division by zero, callee preconditions) '
                       'and leak obligations (--memory-leak-check) of every function under contract, for symbolic n and N (so n > N, n = 1, odd n are inside) '
                       'and enumerated k, l, Bgbit, t, basebit; allocation life cycle of every sample/key/polynomial type through the real constructors, '
                       'destructors and the real template macro.',
        'assumptions': STD_ASSUME + [
            'reads of uninitialised memory: CBMC has no definedness tracking; not decided',
            'thread-exit destructors of the thread_local FFT processors, the assembly kernels, the text layer of serialization, garbage collector (std::vector): not reachable by the C front end (the binary readers / writers are under contract here)',
            'key-switch table: constructor loops unbounded in n (see C08); constructor + destructor + use on one concrete table bounded',
            'FFT-domain objects: TLweSampleFFT / TGswSampleFFT life cycle and LweBootstrappingKeyFFT construction / ownership (unbounded in n and k*N for a watched index, plus a bounded whole-object check) are under contract; the LagrangeHalfCPolynomial objects themselves (FFT processors) are allocation monitors',
        ],
        'trusted': [],
    },
    'C03': {
        'groups': c03_groups,
        'level': 'proof',
        'explanation': 'LWE and gate API: decoding grid (every phase within the decoding radius of mu/Msize decodes to it, per enumerated Msize, all mu and all '
                       'errors symbolic), lweSymDecrypt = approxPhase(lwePhase) wiring, gate encode/decode wiring, encryption structure (one centred gaussian '
                       'of the requested stdev, uniform mask, variance annotation) for every n; the pairing phase(encrypt(m)) = m + e for any integer key is a '
                       'bounded stand-in in n. TLWE and TGSW: the wiring of encryption, phase and decryption for every N with the ring products as monitors '
                       '(their numerical content is assumed).',
        'assumptions': STD_ASSUME + [
            'pairing of the encryption loop and the phase loop (sum a_i*s_i): bounded stand-in, quick: n in 1..9 and 11, thorough: 1..17, 23, 31, 32; all coefficient / key / error values symbolic (z3)',
            'TLWE: wiring of tLweSymEncrypt(T) / tLwePhase / tLweApproxPhase proved with the ring products as monitors (ASSUMED: torusPolynomialAddMulR/SubMulR equal the exact negacyclic multiply-accumulate); tLweSymDecrypt / tLweSymDecryptT wiring proved likewise; TGSW: tGswSymEncrypt / tGswEncryptB wrappers and tGswSymDecrypt (all N; indicator decomposed once, phases of the last block, digit i with row i, rounding with the Msize given) with the decomposition, tLwePhase and the ring product as monitors',
            'the samplers are declared-only draws (assumed contract of libstdc++); the gaussian error is an arbitrary finite double, its size is not bounded by alpha here',
            'Msize enumerated; noise bound "Msize*alpha <= 1/20" enters only as the decoding radius |e| < 1/(2 Msize) - 2 units',
        ],
        'trusted': [],
    },
    'C07': {
        'groups': c07_groups,
        'level': 'proof',
        'explanation': 'Noise-parameter and draw-count plumbing of LWE encryption, gate encryption and LWE key generation for every n: the configured '
                       'standard deviation reaches the sampler unchanged and centred, exactly once per ciphertext; one uniform draw per mask coefficient; '
                       'key coefficients are draws from {0,1}; fresh gate ciphertexts use the input-key noise level. The distributional statement itself '
                       '(moments, uniformity, independence, seeding reproducibility) is statistical and NOT decided.',
        'assumptions': STD_ASSUME + [
            'libstdc++ normal_distribution / uniform_int_distribution / default_random_engine: assumed contract (declared-only draws)',
            'no moment, tail, balance or independence claim is decided; re-seeding: only the static fact that no gaussian sampler object outlives a call (its cached value would survive a re-seed, seed S20) -- the generator itself is assumed; bootstrapping-key rows: plumbing down to tLweSymEncryptZero(row, alpha_min of the accumulator parameters); key-switching-key rows: UNBOUNDED in n for a watched symbolic index (every row of that index once, right message, output key and its alpha_min, noise array indexed in bounds), plus the bounded whole-table check; which noise entry reaches which row and the recentring arithmetic in doubles are not decided; ring keys (tLweKeyGen / tGswKeyGen), torusPolynomialUniform, TGSW encrypt wrappers and the key-set generator are under contract',
            'the variance annotation alpha^2 is proved for the enumerated alphas (IEEE product, see DESIGN 8.2)',
        ],
        'trusted': [],
    },
    'C09': {
        'groups': c09_groups,
        'level': 'proof',
        'explanation': 'Structure only: external product (coefficient-domain and FFT-domain) decomposes the accumulator before clearing it, then one '
                       'multiply-accumulate per row with its own digit polynomial, temporaries released; gadget rows (message*h[i] on the block diagonal, nothing '
                       'else); FFT image row by row; truncation identity per coefficient; blind-rotation loop and CMux step (see C04). The products themselves '
                       'and every noise statement are assumed.',
        'assumptions': STD_ASSUME + [
            'the polynomial multiply-accumulate (tLweAddMulRTo / tLweFFTAddMulRTo / IntPolynomial_ifft / TorusPolynomial_fft) is a monitor: its numerical content (FFT, C10) is assumed; so "phase = m*phase(c) + bounded error" is NOT decided, only the exact structure that makes it so',
            'k and l enumerated; message constants m in {0,1,2,3} for tGswAddMuIntH and {1,3,-1} for the truncation identity (symbolic 32x32 multipliers undecided)',
            'tGswAddMuH (polynomial message): proved for the gadget weights h[i] = 2^(32-(i+1)Bgbit) of one layout per l (the weights the constructor computes, C12), all N, all message polynomials; symbolic weights are not decided (32-bit multiplier congruence)',
            '"the FFT-domain key is a faithful image": only that every row is transformed once into its own slot',
        ],
        'trusted': [],
    },
    'C05': {
        'groups': c05_groups,
        'level': 'proof',
        'explanation': 'BINARY sections and section structure by CBMC; of the text layer only the conversion used for real-valued parameters (static fact, see assumptions). '
                       'The real bodies of every binary writer and its reader (LWE / TLWE / TGSW samples, LWE / TLWE / TGSW keys, key-switching rows, bootstrapping rows) '
                       'against a byte-stream monitor, ghost index over every write: the reader, reading into the same object, makes the same number of reads and its w-th read '
                       'has the pointer and byte count of the w-th write, so every binary field comes back from exactly the bytes it was written to (field-for-field equality and '
                       'byte-identical re-export of these sections); the tag written is the tag demanded; for key material the ONE variance written is the maximum over the rows '
                       'and every imported row carries the stored value. The real bodies of the composite writers / readers (bootstrapping key, cloud and secret key sets) against '
                       'section monitors: the importer reads, in order, exactly the sections the exporter wrote, with parameter text present exactly when the importer is not '
                       'given the parameters, and the imported structure holds the objects read.',
        'assumptions': STD_ASSUME + [
            'TEXT layer: only the printf conversion of real-valued parameters is decided, as a static AST fact read off the real source on every run (C05.static.text_double_format: >= 17 significant '
            'digits accepted, a fixed number of decimals refuted with a witness, anything else undecided); the round-trip theorem for 17 significant digits and correctly rounding libc printf / strtold are '
            'ASSUMED. std::map ordering, titles, the line parser and stold itself are out of reach of the C front end and NOT covered',
            'stream stubs = assumed contract of the two stream classes (fwrite copies the bytes given, fread fills the bytes requested); virtual dispatch collapsed into one stub (R8); '
            'the 60 FILE / C++-stream wrappers are proved to be pure pass-throughs (api_wrappers group); the adapter classes themselves, concatenation of several objects in one stream, FFT-domain samples, functional equivalence of a re-imported key are not under contract',
            'read_new_lweKey / read_new_tGswKey / read_new_tfheGateBootstrappingParameters are stubs in the key-set harness (they read their parameter text exactly when no parameters are given: their two-line bodies, not re-proved)',
            'table shapes (n, t, basebit, k, l) small enumerated, coefficient dimensions symbolic; loops over the enumerated shapes are unwound completely (unwinding assertions)',
        ],
        'trusted': [],
    },
    'C17': {
        'groups': c17_all_groups,
        'level': 'proof',
        'explanation': 'Section structure and binary sections only. (1) The real bodies of the cloud / secret key-set writers, of the cloud key-set reader and of the bootstrapping-key '
                       'writer against section monitors, loop-free, all flag values: the cloud export is exactly [parameter text iff requested] + key-switching parameter text + '
                       'key-switching rows + bootstrapping rows, built only from objects reachable from the cloud structure, no key section and no key object handed to any writer; '
                       'the secret export begins with the same sections with the same arguments and has more (strict prefix); the cloud import reads no key section and produces '
                       'exactly (parameters, key, FFT image). (2) The real bodies of the two binary row writers against a byte-stream monitor: the w-th write (ghost index) is exactly '
                       'the w-th field of the row layout, sources readable for the byte count, nothing else written, total size = the closed form in the parameters. '
                       '(3) The two secret-only sections are non-empty and of the size fixed by the parameters.',
        'assumptions': STD_ASSUME + [
            'the TEXT sections (parameter sets, key-switching parameter section: TextModeProperties / std::map / sprintf) are out of reach: their byte size and content are NOT covered; '
            '"exact size" is decided for the binary sections only',
            '"contains neither the LWE key bits nor the ring key coefficients in any encoding" is decided structurally (no key section, no key object handed to a writer, every exported '
            'byte comes from a row of the key-switching / bootstrapping tables, the tag or the variance); that the ROWS themselves do not leak the keys is the encryption property (C07), not decided here',
            'stream stubs = assumed contract of the two stream classes (fwrite copies the bytes given, fread fills the bytes requested); virtual dispatch collapsed into one stub (R8); '
            'the FILE / C++-stream wrappers (export_*_toFile / _toStream ...) are proved to be pure pass-throughs (api_wrappers group); the adapter classes behind to_Ostream / to_Istream are the assumed stream contract',
            'table shapes (n, t, basebit, k, l) small enumerated, coefficient dimensions n_out, N symbolic up to 4096; loops over the enumerated shapes are unwound completely (unwinding assertions)',
        ],
        'trusted': [],
    },
    'C18': {
        'groups': c18_all_groups,
        'level': 'proof',
        'explanation': 'Binary sections only: the eight binary readers against a stream stub with an arbitrary number of remaining bytes, arbitrary content and an '
                       'arbitrary type tag, for both stream flavours: every destination is writable for the requested byte count; a wrong tag never returns '
                       'normally with a clean stream; a normal return with a clean stream consumed exactly the section size (so no proper prefix is accepted). '
                       'Coefficient dimensions n, N symbolic; k, l and the key-switch / bootstrapping table shapes small enumerated.',
        'assumptions': STD_ASSUME + [
            'the text-section parser (new_TextModeProperties_fromIstream, MapTextModeProperties, std::string / std::map / stold) is out of reach of the C front end: titles, '
            'truncated headers and parameter sections are NOT covered -- the property is claimed for the binary sections only',
            'stream stub = assumed contract of CIstream::fread (short read aborts) and StdIstream::fread (short read sets the fail bit), transcribed from tfhe_generic_streams.cpp:68-84; virtual dispatch is collapsed into one stub (R8)',
            'composite importers and the writers are under contract in C05 / C17, not here; the public wrappers are proved to be pass-throughs (api_wrappers group)',
        ],
        'trusted': [],
    },
}
