"""Registry: property id -> obligation groups (DESIGN.md section 4)."""
import os
import random
import sys

sys.path.insert(0, os.path.dirname(os.path.abspath(__file__)))
from core import Group  # noqa: E402

NF = 'numeric-functions.cpp'
STD_ASSUME = [
    'Torus32=int32_t arithmetic wraps (cbmc --no-signed-overflow-check; gcc/clang compile it as two\'s complement)',
    'scalar (#ifndef __AVX2__) branches only; inline assembly and .s kernels are not seen by the verifier',
    'allocation succeeds (--no-malloc-may-fail): std::bad_alloc / NULL-returning malloc paths are not explored',
    'extraction rules R1-R10 of tools/extract.py preserve the meaning of the copied source text',
]

C13_LISTED = [2, 3, 4, 5, 7, 8, 16, 1000, 1024, 2048, 4096, 32768, 2147483648]


def c13_groups(tier, tag='C13'):
    Ms = list(C13_LISTED)
    if tier == 'thorough':
        rnd = random.Random(int(os.environ.get('VERIF_SEED', '0') or 0))
        Ms += list(range(2, 257)) + [1 << k for k in range(1, 32)] + [rnd.randrange(2, 32769) for _ in range(300)]
        Ms = sorted(set(Ms))
    gs = []
    for M in Ms:
        d = {'VERIF_MSIZE': '%du' % M}
        gs.append(Group('%s.modSwitchFromTorus32.M=%d' % (tag, M), 'c13_numeric.c', 'h_modSwitchFromTorus32',
                        extract=[(NF, 'modSwitchFromTorus32')], enforce='modSwitchFromTorus32', defines=d, replay='numeric', instance={'Msize': M}))
        gs.append(Group('%s.modSwitchToTorus32.M=%d' % (tag, M), 'c13_numeric.c', 'h_modSwitchToTorus32',
                        extract=[(NF, 'modSwitchToTorus32')], enforce='modSwitchToTorus32', defines=d, replay='numeric', instance={'Msize': M}))
        gs.append(Group('%s.roundtrip.M=%d' % (tag, M), 'c13_numeric.c', 'h_approx_roundtrip',
                        extract=[(NF, 'modSwitchFromTorus32'), (NF, 'modSwitchToTorus32'), (NF, 'approxPhase')], defines=d, replay='numeric', instance={'Msize': M}))
    gs.append(Group(tag + '.t32tod', 'c13_numeric.c', 'h_t32tod', extract=[(NF, 't32tod')], enforce='t32tod', replay='numeric'))
    gs.append(Group(tag + '.conversion', 'c13_numeric.c', 'h_conversion', extract=[(NF, 't32tod'), (NF, 'dtot32')], replay='numeric'))
    return gs


PROPS = {
    'C13': {
        'groups': c13_groups,
        'level': 'proof',
        'explanation': 'Each group is a complete proof over all 2^32 phases / all mu in [0,M) for one constant message-space size M '
                       '(the 64-bit divider with a symbolic divisor does not terminate in any installed solver, so M is enumerated).',
        'assumptions': STD_ASSUME + ['message-space sizes outside the enumerated list (quick: the 13 values of the property; thorough: [2,256], all 2^k, 300 seeded values in [2,2^15]) are not covered'],
        'trusted': [],
    },
}
