"""Self-test of the bounded arbiter (DESIGN 8.7): on the UNCHANGED tree the arbiter of every loop-contract group must PROVE; an arbiter that is
itself undecided cannot protect a benign refactor from being reported.  usage: tools/arbiter_selftest.py [Cxx ...]"""
import sys, os
sys.path.insert(0, os.path.dirname(os.path.abspath(__file__)))
import props, core, check
ids = sys.argv[1:] or sorted(props.PROPS)
seen = set()
arbs = []
for pid in ids:
    for g in props.PROPS[pid]['groups']('quick'):
        if getattr(g, 'loops', False) and not g.bounded and not hasattr(g, 'run_static'):
            key = g.name.split('.', 1)[1]
            if key in seen:
                continue
            seen.add(key)
            arbs.append(check.arbiter(g))
res = core.run_groups(arbs, progress=False)
bad = 0
for a in arbs:
    r = res[a.name]
    if r.status != 'PROVED':
        bad += 1
        print('%-70s %s %s' % (a.name, r.status, (r.reason or '')[:160].replace('\n', ' ')))
print('%d arbiters, %d not PROVED' % (len(arbs), bad))
import shutil
shutil.rmtree(core.RUNDIR, ignore_errors=True)
