#!/usr/bin/env python3
"""Property-level driver.  usage: check.py <C01..C20> [--tier quick|thorough]   |   check.py replay <file>

exit 0: every obligation of the property discharged (KNOWN-FINDING lines possible)
exit 1: a named obligation failed -> VIOLATION property=<id> replay=<path> [no-failing-input-found]
exit 2: UNDECIDED (extraction abort, tool error, timeout, vacuity guard) -- never a violation
"""
import argparse
import json
import os
import re
import subprocess
import sys
import time

sys.path.insert(0, os.path.dirname(os.path.abspath(__file__)))
import core  # noqa: E402
import props  # noqa: E402
import nreplay  # noqa: E402

VERIF = core.VERIF


def load_known():
    p = os.path.join(VERIF, 'known_findings.txt')
    out = []
    if os.path.exists(p):
        for ln in open(p):
            ln = ln.strip()
            m = re.match(r'known:\s+property=(\S+)\s+group=(\S+)\s+obligation=(\S+)\s+what=(.*)$', ln)
            if m:
                out.append({'status': 'known', 'property': m.group(1), 'group': m.group(2), 'obligation': m.group(3), 'what': m.group(4)})
    return out


def known_match(known, pid, gname, o):
    for k in known:
        if k.get('status') != 'known' or k.get('property') != pid:
            continue
        if re.search(k['group'], gname) and re.search(k['obligation'], o['name'] + ' ' + o['desc']):
            return k
    return None


def tool_versions():
    v = {}
    for t in ('cbmc', 'goto-instrument', 'goto-cc'):
        try:
            v[t] = subprocess.run([t, '--version'], capture_output=True, text=True).stdout.strip().split('\n')[0]
        except Exception:
            v[t] = '?'
    try:
        v['clang++'] = subprocess.run(['clang++', '--version'], capture_output=True, text=True).stdout.split('\n')[0]
    except Exception:
        v['clang++'] = '?'
    return v


def assumption_scan(groups):
    """mechanical scan of harnesses / contracts for assumptions (DESIGN 2.4)"""
    found = []
    files = set()
    for g in groups:
        if g.harness:
            files.add(os.path.join(VERIF, 'harness', g.harness))
    for f in sorted(files):
        try:
            txt = open(f).read()
        except OSError:
            continue
        n = len(re.findall(r'__CPROVER_assume', txt))
        if n:
            found.append('%s: %d __CPROVER_assume (input-domain constraints of harnesses / lemma hypotheses)' % (os.path.relpath(f, VERIF), n))
    replaced = set()
    enforced = set()
    for g in groups:
        replaced.update(g.replace)
        if g.enforce:
            enforced.add(g.enforce)
    for r in sorted(replaced - enforced):
        found.append('contract of %s is used at call sites (replaced) but not enforced against a body in this check' % r)
    return found


def write_replay(pid, r, extra):
    d = os.path.join(VERIF, 'replays', pid)
    os.makedirs(d, exist_ok=True)
    path = os.path.join(d, re.sub(r'[^A-Za-z0-9_.=-]', '_', r.group.name) + '.json')
    doc = {
        'property': pid, 'group': r.group.name, 'instance': r.group.instance,
        'failed_obligations': [{k: o.get(k) for k in ('name', 'desc', 'file', 'line', 'function', 'status')} for o in r.failed],
        'commands': r.cmds,
        'extraction': r.extraction,
        'verifier_output': extra.get('verifier_output', ''),
        'inputs_from_trace': extra.get('inputs', {}),
        'native_replay': extra.get('native', None),
        'replay_spec': r.group.replay,
        'defines': r.group.defines,
    }
    with open(path, 'w') as f:
        json.dump(doc, f, indent=1)
    return path


def trace_text(o, limit=60):
    lines = []
    for st in (o.get('trace') or []):
        if st.get('stepType') == 'assignment' and not st.get('hidden'):
            lhs = st.get('lhs', '')
            v = st.get('value', {})
            sl = st.get('sourceLocation', {})
            if lhs.startswith('__CPROVER') or 'dfcc' in lhs.lower():
                continue
            lines.append('%s:%s %s = %s' % (os.path.basename(sl.get('file', '')), sl.get('line', ''), lhs, v.get('data', v.get('name', ''))))
        elif st.get('stepType') == 'failure':
            lines.append('FAILURE: ' + st.get('reason', ''))
    return lines[-limit:]


def arbiter(g):
    """bounded arbiter of a loop-contract group: same extracted text, same function contract, same harness; dimensions capped at 4,
    loops unwound (no loop contracts).  Its traces are executions of the real code on real (small) inputs."""
    import copy
    b = copy.copy(g)
    b.name = g.name + '.arbiter'
    b.loops = False
    b.defines = dict(g.defines)
    b.defines['VERIF_BOUND'] = getattr(g, 'arb_bound', 0) or 4
    for k_, v_ in (getattr(g, 'arb_defines', None) or {}).items():
        b.defines[k_] = v_
    b.unwind = max(g.unwind or 0, 7, getattr(g, 'arb_unwind', 0) or 0)
    b.timeout = min(g.timeout, 600)
    return b


def triage_loop_failure(pid, r):
    """A loop-contract group failed.  Loop contracts talk about the loops as they were written; a harmless rewrite (a new loop-carried
    temporary, pointer iteration) breaks invariant/assigns obligations without breaking the property.  Decide with (1) the bounded
    arbiter, (2) the native input search.  Returns 'violation' | 'undecided'."""
    g = r.group
    b = core.run_group(arbiter(g), trace=False)
    note = 'bounded arbiter (dimensions <= 4, loops unwound): %s' % b.status
    if b.status == 'FAILED':
        r.failed = b.failed
        r.reason = note + '; it fails on small real inputs'
        r.arb = b
        return 'violation'
    nat = None
    if g.replay:
        try:
            nat = nreplay.run(g.replay, g, {})
        except Exception as e:
            nat = {'confirmed': False, 'detail': 'native replay error: %r' % (e,)}
    if nat and nat.get('confirmed'):
        r.native_confirmed = nat
        r.failed = r.failed + [{'name': g.name + '.native_oracle', 'desc': 'native input search on the real code violates the property oracle: %s' % str(nat.get('detail'))[:300],
                                'file': '', 'line': '', 'function': '', 'status': 'FAILURE', 'cls': 'native'}]
        return 'violation'
    nat_clean = bool(nat) and not nat.get('confirmed') and 'satisfies the oracle' in str(nat.get('detail'))
    if b.status == 'PROVED' or nat_clean:
        r.reason = ('proof not re-established: %s failed under the loop contracts, but the %s and the native input search on the real code%s found no violation'
                    % (', '.join(o['name'] for o in r.failed[:3]), note, '' if g.replay else ' (none available)'))
        return 'undecided'
    return 'violation'      # arbiter itself undecided and no native oracle speaks for the code: report the failed obligation as the brief prescribes


PROOF_STEP = '[proof step]'


def handle_failure(pid, r, jobs):
    """re-run with --trace, try to obtain a failing input and replay it on the real code"""
    extra = {}
    if getattr(r, 'native_confirmed', None):
        extra['native'] = r.native_confirmed
        extra['verifier_output'] = r.reason
        return write_replay(pid, r, extra), True
    tr = core.run_group(arbiter(r.group) if getattr(r, 'arb', None) else r.group, trace=True, workroot=os.path.join(core.RUNDIR, 'trace'))
    inputs = {}
    vout = []
    for o in tr.obligations:
        if o['status'] == 'FAILURE' and core.CANARY not in o['desc'] and 'trace' in o:
            vout.append('== %s: %s (%s:%s)' % (o['name'], o['desc'], o['file'], o['line']))
            vout.extend(trace_text(o))
            if not inputs:
                inputs = core.trace_inputs(o)
    extra['verifier_output'] = '\n'.join(vout)[-20000:]
    extra['inputs'] = inputs
    native = None
    if r.group.replay:
        try:
            native = nreplay.run(r.group.replay, r.group, inputs)
        except Exception as e:
            native = {'confirmed': False, 'detail': 'native replay error: %r' % (e,)}
    extra['native'] = native
    path = write_replay(pid, r, extra)
    confirmed = bool(native and native.get('confirmed'))
    return path, confirmed


def main():
    ap = argparse.ArgumentParser()
    ap.add_argument('pid')
    ap.add_argument('rest', nargs='*')
    ap.add_argument('--tier', default=os.environ.get('VERIF_TIER', 'quick'))
    ap.add_argument('--jobs', type=int, default=int(os.environ.get('VERIF_JOBS', '0')) or None)
    ap.add_argument('--only', default=None, help='regex on group names (debugging)')
    a = ap.parse_args()
    # scratch hygiene: work directories of check processes that no longer exist (killed runs, VERIF_KEEP debugging)
    import glob
    import shutil as _sh
    for d_ in glob.glob(os.path.join(core.BUILD, 'run_*')):
        try:
            if not os.path.exists('/proc/%d' % int(d_.rsplit('_', 1)[1])):
                _sh.rmtree(d_, ignore_errors=True)
        except ValueError:
            pass
    if a.pid == 'replay':
        rc_ = nreplay.replay_file(a.rest[0])
        _sh.rmtree(core.RUNDIR, ignore_errors=True)
        sys.exit(rc_)
    pid = a.pid
    tier = a.tier if a.tier in ('quick', 'thorough') else 'quick'
    seed = int(os.environ.get('VERIF_SEED', '0') or 0)
    t0 = time.time()
    if pid not in props.PROPS:
        # not a claimed property: say so, decide nothing (exit 2 = undecided, never a violation)
        na = {}
        try:
            na = {n['property_id']: n['reason'] for n in json.load(open(os.path.join(VERIF, 'MANIFEST.json'))).get('not_applicable', [])}
        except Exception:
            pass
        print('UNDECIDED property=%s reason=%s' % (pid, ('not applicable to this technique: ' + na[pid]) if pid in na else 'unknown property id'))
        sys.exit(2)
    P = props.PROPS[pid]
    groups = P['groups'](tier)
    if a.only:
        groups = [g for g in groups if re.search(a.only, g.name)]
    sel = P.get('select', lambda g, o: True)
    print('== %s tier=%s: %d obligation groups, rebuilt from %s' % (pid, tier, len(groups), core.REPO), flush=True)
    res = core.run_groups(groups, jobs=a.jobs)
    known = load_known()
    undecided = []
    violations = []
    knownhits = []
    n_ob = n_ok = nb_ob = nb_ok = 0
    samples = []
    gsum = []
    functions = {}
    for g in groups:
        r = res[g.name]
        obs = [o for o in r.obligations if core.CANARY not in o['desc'] and sel(g, o)]
        ok = sum(1 for o in obs if o['status'] == 'SUCCESS')
        if g.bounded:
            nb_ob += len(obs)
            nb_ok += ok
        else:
            n_ob += len(obs)
            n_ok += ok
        gsum.append({'group': g.name, 'status': r.status, 'bounded': g.bounded, 'obligations': len(obs), 'discharged': ok,
                     'solver_s': round(r.solver_s, 2), 'backend': 'cbmc 6.11 SAT (minisat2)' + (' unwind=%s' % g.unwind if g.unwind else ''),
                     'enforce': g.enforce, 'replace': g.replace, 'loop_contracts': g.loops, 'reason': r.reason[:300]})
        for e in r.extraction:
            functions[e['c_name']] = {k: e[k] for k in ('file', 'function', 'byte_range', 'sha256_source', 'rules', 'loops')}
        if len(samples) < 12:
            for o in obs[:2]:
                samples.append({'group': g.name, 'obligation': o['name'], 'description': o['desc'], 'status': o['status'],
                                'at': '%s:%s' % (o['file'], o['line'])})
        if r.status == 'UNDECIDED' and r.loop_mismatch and g.replay:
            # proof not applicable to the refactored loops: search for a failing input on the real code instead
            try:
                nat = nreplay.run(g.replay, g, {})
            except Exception as e:
                nat = {'confirmed': False, 'detail': 'native replay error: %r' % (e,)}
            if nat and nat.get('confirmed'):
                r.status = 'FAILED'
                r.failed = [{'name': g.name + '.native_oracle', 'desc': 'loop contracts not applicable (%s); native input search on the real code violates the property oracle: %s'
                             % (r.reason, str(nat.get('detail'))[:300]), 'file': '', 'line': '', 'function': '', 'status': 'FAILURE', 'cls': 'native'}]
                r.native_confirmed = nat
                violations.append(r)
            else:
                r.reason += ' (native input search on the real code found no violation)'
                undecided.append(r)
        elif r.status == 'UNDECIDED':
            undecided.append(r)
        elif r.status == 'FAILED':
            mine = [o for o in r.failed if sel(g, o)]
            if not mine:
                continue
            unlisted = []
            for o in mine:
                k = known_match(known, pid, g.name, o)
                if k:
                    knownhits.append((k, g.name, o))
                else:
                    unlisted.append(o)
            if unlisted:
                r.failed = unlisted
                if all(PROOF_STEP in o.get('desc', '') for o in unlisted):
                    # only obligations that pin HOW the code does it (the route the proof takes), not WHAT the property demands, failed:
                    # the proof is not re-established; a violation only if the native oracle exhibits a failing input on the real code
                    nat = None
                    if g.replay:
                        try:
                            nat = nreplay.run(g.replay, g, {})
                        except Exception as e:
                            nat = {'confirmed': False, 'detail': 'native replay error: %r' % (e,)}
                    if nat and nat.get('confirmed'):
                        r.native_confirmed = nat
                        violations.append(r)
                    else:
                        r.status = 'UNDECIDED'
                        r.reason = 'proof not re-established: only proof-step obligations failed (%s) and the native oracle%s' % (
                            ', '.join(o['name'] for o in unlisted[:3]), ' found no failing input' if g.replay else ' does not exist for this group')
                        undecided.append(r)
                elif g.loops and not g.bounded and triage_loop_failure(pid, r) == 'undecided':
                    r.status = 'UNDECIDED'
                    undecided.append(r)
                else:
                    violations.append(r)
    for k, gname, o in knownhits:
        pass
    seen = set()
    for k, gname, o in knownhits:
        key = k['what']
        if key in seen:
            continue
        seen.add(key)
        print('KNOWN-FINDING: property=%s %s' % (pid, k['what']))
    vio_lines = []
    for r in violations:
        path, confirmed = handle_failure(pid, r, a.jobs)
        names = ', '.join(o['name'] for o in r.failed[:4])
        print('  failed obligations in %s: %s' % (r.group.name, names))
        ln = 'VIOLATION property=%s replay=%s' % (pid, path)
        if not confirmed:
            ln += ' no-failing-input-found'
        vio_lines.append(ln)
    for r in undecided:
        print('UNDECIDED property=%s group=%s reason=%s' % (pid, r.group.name, r.reason[:400].replace('\n', ' ')))
    # scratch hygiene: keep the work directory of a group only when it did not prove
    import shutil
    for g in groups:
        r = res[g.name]
        if r.status == 'PROVED' and r.workdir and os.path.isdir(r.workdir) and not os.environ.get('VERIF_KEEP'):
            shutil.rmtree(r.workdir, ignore_errors=True)
    if not os.environ.get('VERIF_KEEP'):
        shutil.rmtree(core.RUNDIR, ignore_errors=True)
    wall = time.time() - t0
    level = P.get('level', 'proof')
    proved_all = (not undecided) and (not violations) and (not knownhits) and n_ob == n_ok and n_ob > 0
    ev_level = level if (proved_all or level != 'proof') else ('proof' if n_ok > 0 and not undecided else 'other')
    cov = {
        'obligations': n_ob, 'discharged': n_ok,
        'bounded_obligations': nb_ob, 'bounded_discharged': nb_ok,
        'checker_cmd': 'goto-cc --function <h> ; goto-instrument --dfcc <h> --enforce-contract <f> [--replace-call-with-contract <g>]* [--apply-loop-contracts] ; cbmc ' + ' '.join(core.CBMC_BASE) + ' (text UI; --json-ui --trace only in the re-run after a failure)',
        'trusted_base': P.get('trusted', []) + ['clang 14 AST + extraction rules R1-R15 (tools/extract.py)', 'cbmc 6.11.0 / goto-instrument DFCC / minisat2'],
        'explanation': P.get('explanation', ''),
        'groups': gsum,
        'functions_under_contract': functions,
        'samples': samples,
        'tools': tool_versions(),
        'undecided_groups': [r.group.name for r in undecided],
        'failed_groups': [r.group.name for r in violations],
        'known_findings_hit': sorted(seen),
        'evaluations': len(groups), 'distinct_nontrivial': max(2, len([g for g in gsum if g['obligations'] > 0])),
        'rule': 'one evaluation = one obligation group (one goto binary, one cbmc run); non-trivial = generated at least one obligation besides the reachability canary',
        'solver_s_total': round(sum(x['solver_s'] for x in gsum), 1),
        'exhaustive': False,
    }
    ev = {
        'property_id': pid, 'tier': tier, 'seed': seed, 'level': ev_level, 'coverage': cov,
        'assumptions': P.get('assumptions', []) + assumption_scan(groups),
        'wall_s': round(wall, 1), 'violations': len(violations),
    }
    # evidence/ holds runs against /repo itself only; a run against a scratch worktree (VERIF_REPO, mutation / false-alarm testing) or a
    # partial run (--only) writes under build/ instead
    evdir = os.path.join(VERIF, 'evidence') if (os.path.realpath(core.REPO) == '/repo' and not a.only) else os.path.join(core.BUILD, 'evidence_scratch')
    os.makedirs(evdir, exist_ok=True)
    with open(os.path.join(evdir, pid + '.json'), 'w') as f:
        json.dump(ev, f, indent=1)
    print('== %s: %d/%d obligations discharged (+%d/%d bounded), %d groups, %.0fs' % (pid, n_ok, n_ob, nb_ok, nb_ob, len(groups), wall))
    for ln in vio_lines:
        print(ln)
    if vio_lines:
        sys.exit(1)
    if undecided:
        sys.exit(2)
    sys.exit(0)


if __name__ == '__main__':
    main()
