"""Generated harness for the public import/export wrappers of tfhe_io.cpp (export_*_toFile/_toStream, new_*_fromFile/_fromStream,
import_*_fromFile/_fromStream).  Every wrapper is extracted from the real source (rules R8, R13b, R15); the monitors for the functions they
call and the assertions are generated from the clang AST of the current tree on every run:
  exactly one call, of one inner function; its stream argument is the adapter built from the wrapper's own FILE* / C++ stream, of the flavour the
  wrapper's name says; every other argument that is a wrapper parameter is passed through unchanged; the inner result is returned unchanged."""
import os
import re
import extract as X

IO = 'tfhe_io.cpp'
WRE = re.compile(r'^(export_\w+_to(File|Stream)|new_\w+_from(File|Stream)|import_\w+_from(File|Stream))$')


def _ctype(qt):
    qt = qt.replace('std::', 'std__').strip()
    if qt.endswith('&'):
        qt = qt[:-1].rstrip() + ' *'
    return qt


def _decls(cpp):
    """name -> FunctionDecl (definition preferred) for every function of the translation unit that is declared/defined in tfhe_io.cpp or tfhe_io.h"""
    out = {}
    for o in X.clang_ast(cpp, ''):
        stack = [o]
        while stack:
            n = stack.pop()
            if n.get('kind') == 'FunctionDecl' and n.get('name'):
                has_body = any(c.get('kind') == 'CompoundStmt' for c in n.get('inner', []) or [])
                if has_body or n['name'] not in out:
                    out[n['name']] = n
            for c in n.get('inner', []) or []:
                if c.get('kind') in ('LinkageSpecDecl', 'NamespaceDecl', 'TranslationUnitDecl', 'FunctionDecl'):
                    stack.append(c)
    return out


def wrapper_names():
    src = open(os.path.join(X.SRC, IO), 'rb').read().decode('latin-1')
    names = []
    for m in re.finditer(r'^EXPORT\s+[^\n(]*?\b(\w+)\s*\(', src, re.M):
        if WRE.match(m.group(1)) and m.group(1) not in names:
            names.append(m.group(1))
    # definitions may put the name on the line after EXPORT
    for m in re.finditer(r'^EXPORT[^\n;{(]*\n\s*(\w+)\s*\(', src, re.M):
        if WRE.match(m.group(1)) and m.group(1) not in names:
            names.append(m.group(1))
    return names


def generate():
    """-> (include text, list of wrapper names extracted)"""
    names = wrapper_names()
    if len(names) < 20:
        raise X.ExtractionError('only %d import/export wrappers found in tfhe_io.cpp' % len(names))
    texts = {}
    for w in names:
        fx = X.FunctionExtractor(IO, w)
        texts[w] = fx.extract()['text']
    mons, body = {}, []
    PAT_A = r'\s*(?P<ret>[\w\s\*]+?)\s*\b%s\s*\((?P<params>[^)]*)\)\s*\{\s*(?P<retkw>return\s+)?(?P<callee>\w+)\s*\(\s*verif_to_(?P<dir>[OI])stream_(?P<fl>FILE|std)\s*\(\s*(?P<src>\w+)\s*\)\s*(?P<rest>(,[^;]*)?)\)\s*;\s*\}\s*$'
    PAT_B = r'\s*(?P<ret>[\w\s\*]+?)\s*\b%s\s*\((?P<params>[^)]*)\)\s*\{\s*(?P<retkw>return\s+)?(?P<callee>\w+)\s*\(\s*(?P<src>\w+)\s*(?P<rest>(,[^;]*)?)\)\s*;\s*\}\s*$'
    info = {}
    for w in names:
        code = re.sub(r'#line[^\n]*\n', '', texts[w])
        code = re.sub(r'#ifdef CONTRACT_\w+\nCONTRACT_\w+\n#endif\n', '', code)
        m = re.match(PAT_A % re.escape(w), code, re.S)
        direct = True
        if not m:
            m = re.match(PAT_B % re.escape(w), code, re.S)
            direct = False
            if not m or m.group('callee') not in names:
                raise X.ExtractionError('wrapper %s is neither a single pass-through call nor a delegation to another wrapper: %r' % (w, code[:300]))
        params = [p.strip() for p in m.group('params').split(',') if p.strip()]
        pnames = [re.search(r'(\w+)\s*$', p).group(1) for p in params]
        ptypes = [p[:re.search(r'(\w+)\s*$', p).start()].strip() for p in params]
        args = [a.strip() for a in m.group('rest').split(',')[1:]] if m.group('rest') else []
        info[w] = dict(direct=direct, ret=m.group('ret').strip(), pnames=pnames, ptypes=ptypes, args=args, callee=m.group('callee'), src=m.group('src'),
                       dir=m.groupdict().get('dir'), fl=m.groupdict().get('fl'))
    for w in names:
        I = info[w]
        src, args, callee = I['src'], list(I['args']), I['callee']
        if not I['direct']:
            J = info[callee]
            if not J['direct']:
                raise X.ExtractionError('wrapper %s delegates through more than one level' % w)
            sub = dict(zip(J['pnames'], [src] + args))            # the delegate's parameters in terms of this wrapper's expressions
            src = sub[J['src']]
            args = [sub.get(a, a) for a in J['args']]
            callee, dr = J['callee'], J['dir']
        else:
            dr = I['dir']
        want_fl = 'FILE' if w.endswith('File') else 'std'
        pnames, ptypes = I['pnames'], I['ptypes']
        mons.setdefault(callee, (len(args), dr))
        if mons[callee][0] != len(args):
            raise X.ExtractionError('callee %s used with different arities' % callee)
        b = ['    { /* %s */' % w, '        n_calls = 0; n_adapt = 0; last_callee = 0;']
        callargs = []
        for ty, nm in zip(ptypes, pnames):
            if '*' in ty and ('FILE' in ty or 'stream' in ty):
                b.append('        static char d_%s_%s; %s a_%s = (%s)&d_%s_%s;' % (w, nm, ty, nm, ty, w, nm))
            elif '*' in ty:
                base = ty.replace('const', '').replace('*', '').strip()
                b.append('        static %s o_%s_%s; %s a_%s = &o_%s_%s;' % (base, w, nm, ty, nm, w, nm))
                for a in args:
                    fm = re.match(r'^%s->(\w+)$' % re.escape(nm), a)
                    if fm:      # a field of this parameter is passed on: give it a recognisable value
                        b.append('        static char d_%s_%s_%s; *(const void **)&o_%s_%s.%s = (const void *)&d_%s_%s_%s;' % (w, nm, fm.group(1), w, nm, fm.group(1), w, nm, fm.group(1)))
            else:
                b.append('        %s a_%s;' % (ty, nm))
            callargs.append('a_' + nm)
        isvoid = I['ret'] == 'void'
        if not isvoid:
            b.append('        static char d_%s_ret; ret_%s = (void *)&d_%s_ret;' % (w, callee, w))
        b.append('        %s%s(%s);' % ('' if isvoid else 'void *r_ = (void *)', w, ', '.join(callargs)))
        b.append('        __CPROVER_assert(n_calls == 1 && last_callee == ID_%s, "%s: exactly one inner call, to %s");' % (callee, w, callee))
        b.append('        __CPROVER_assert(n_adapt == 1 && ad_kind == KIND_%s && ad_dir == \'%s\' && ad_src == (const void *)a_%s && arg0_%s == (const void *)&ad_obj, "%s: the stream handed on is the adapter of the caller\'s own %s");'
                 % (want_fl, dr, src, callee, w, 'FILE*' if want_fl == 'FILE' else 'C++ stream'))
        for i, a in enumerate(args):
            root = re.match(r'^(\w+)', a).group(1)
            if root in pnames:
                expr = re.sub(r'^\w+', 'a_' + root, a)
                ty = ptypes[pnames.index(root)] if a == root else '*'
                if '*' in ty:
                    b.append('        __CPROVER_assert(argp_%s[%d] == (const void *)(%s), "%s: argument %s is passed on unchanged");' % (callee, i, expr, w, a))
                else:
                    b.append('        __CPROVER_assert(argi_%s[%d] == (long long)(%s), "%s: argument %s is passed on unchanged");' % (callee, i, expr, w, a))
        if not isvoid:
            b.append('        __CPROVER_assert(r_ == ret_%s, "%s: the imported object is returned unchanged");' % (callee, w))
        b.append('    }')
        body.append('\n'.join(b))
    decls = _decls(os.path.join(X.SRC, IO))
    out = ['/* generated on every run by tools/wrappers.py from the clang AST of %s -- do not edit */' % os.path.join(X.SRC, IO)]
    out.append('enum { ID_none = 0, %s };' % ', '.join('ID_%s' % c for c in sorted(mons)))
    for c in sorted(mons):
        d = decls.get(c)
        if d is None:
            raise X.ExtractionError('no declaration of %s' % c)
        ft = d['type']['qualType']
        ret = ft[:ft.index('(')].strip()
        prm = [_ctype(p.get('type', {}).get('qualType', '')) for p in d.get('inner', []) if p.get('kind') == 'ParmVarDecl']
        if len(prm) != mons[c][0] + 1:
            raise X.ExtractionError('%s: %d parameters declared, %d passed' % (c, len(prm), mons[c][0] + 1))
        sig = ', '.join('%s p%d' % (t, i) for i, t in enumerate(prm))
        lines = ['static const void *arg0_%s; static const void *argp_%s[8]; static long long argi_%s[8]; static void *ret_%s;' % (c, c, c, c),
                 '%s %s(%s) { n_calls++; last_callee = ID_%s; arg0_%s = p0;' % (ret, c, sig, c, c)]
        for i, t in enumerate(prm[1:]):
            lines.append('    %s' % (('argp_%s[%d] = (const void *)p%d;' % (c, i, i + 1)) if '*' in t else ('argi_%s[%d] = (long long)p%d;' % (c, i, i + 1))))
        lines.append('    %s}' % ('' if ret == 'void' else 'return (%s)ret_%s; ' % (ret, c)))
        out.append('\n'.join(lines))
    out.append('#include "extracted.inc"')
    out.append('void h_wrappers(void) {\n' + '\n'.join(body) + '\n    VERIF_REACH();\n}')
    return '\n'.join(out) + '\n', names
