"""Native replay: compile the REAL .cpp files of the working tree with g++ and run the failing input
(from the verifier's trace, or found by a native boundary sweep) against an oracle written from the
property statement.  Replay confirms or does not confirm; it never creates a violation by itself."""
import json
import re
import os
import signal
import subprocess
import sys

sys.path.insert(0, os.path.dirname(os.path.abspath(__file__)))
import core  # noqa: E402

VERIF = core.VERIF
REPO = core.REPO
LIB = os.path.join(REPO, 'src', 'libtfhe')
INC = os.path.join(REPO, 'src', 'include')


_built = {}


def build(name, sources, extra=(), exe_name=None, stub_undefined=False):
    """compile replay/<name>.cpp together with REAL library sources of the working tree.  With stub_undefined, symbols that
    only unused functions of an #included library file refer to are defined as aborting stubs (two-pass link).
    Built once per check process (the working tree does not change during a run)."""
    key = (name, tuple(sources), tuple(extra), exe_name, stub_undefined)
    if key in _built:
        return _built[key]
    _built[key] = _build(name, sources, extra, exe_name, stub_undefined)
    return _built[key]


def _build(name, sources, extra=(), exe_name=None, stub_undefined=False):
    out = os.path.join(core.RUNDIR, 'native')
    os.makedirs(out, exist_ok=True)
    exe = os.path.join(out, exe_name or name)
    srcs = [os.path.join(VERIF, 'replay', name + '.cpp')] + [os.path.join(LIB, s) for s in sources]
    base = ['g++', '-std=gnu++11', '-O0', '-g', '-I' + INC, *extra]
    p = subprocess.run(base + ['-o', exe] + srcs, capture_output=True, text=True)
    if p.returncode != 0 and stub_undefined:
        und = sorted(set(re.findall(r"undefined reference to `([^']+)'", p.stderr)))
        obj = exe + '.main.o'
        subprocess.run(base + ['-c', '-o', obj, srcs[0]], capture_output=True, text=True)
        raw = subprocess.run(['nm', '-u', obj], capture_output=True, text=True).stdout.split()
        dem = subprocess.run(['nm', '-uC', obj], capture_output=True, text=True).stdout.split('\n')
        names = [x for x in raw if x != 'U']
        dnames = [l.strip()[2:].strip() for l in dem if l.strip().startswith('U ')]
        m = dict(zip(dnames, names))
        stub = exe + '.stubs.c'
        with open(stub, 'w') as f:
            f.write('#include <stdlib.h>\n')
            for u in und:
                sym = m.get(u, u if re.match(r'^[A-Za-z_][A-Za-z0-9_]*$', u) else None)
                if sym:
                    f.write('void %s(void) { abort(); }\n' % sym)
        so = exe + '.stubs.o'
        subprocess.run(['gcc', '-c', '-o', so, stub], capture_output=True, text=True)
        p = subprocess.run(base + ['-o', exe] + srcs + [so], capture_output=True, text=True)
    if p.returncode != 0:
        raise RuntimeError('native build failed: ' + p.stderr[-1500:])
    return exe


def runexe(exe, args, timeout=600):
    try:
        env = dict(os.environ, ASAN_OPTIONS='detect_leaks=0')     # the replay programs do not free their own scaffolding
        p = subprocess.run([exe] + [str(a) for a in args], capture_output=True, text=True, timeout=timeout, env=env)
    except subprocess.TimeoutExpired:
        return {'confirmed': False, 'detail': 'native run timed out', 'args': args}
    if p.returncode < 0 or (p.returncode != 0 and 'ERROR: AddressSanitizer' in p.stderr):
        if p.returncode >= 0:
            m = [l for l in p.stderr.split('\n') if 'ERROR: AddressSanitizer' in l or l.strip().startswith('#0') or l.strip().startswith('#1')]
            return {'confirmed': True, 'detail': 'AddressSanitizer: ' + ' | '.join(m[:4]), 'args': args}
        sig = -p.returncode
        return {'confirmed': True, 'detail': 'real code crashed with signal %d (%s)' % (sig, signal.Signals(sig).name), 'args': args,
                'stdout': p.stdout[-2000:]}
    if p.returncode == 1:
        return {'confirmed': True, 'detail': p.stdout[-2000:], 'args': args}
    if p.returncode == 0:
        return {'confirmed': False, 'detail': 'real code satisfies the oracle on this input', 'args': args}
    return {'confirmed': False, 'detail': 'replay program exit %d: %s' % (p.returncode, (p.stdout + p.stderr)[-500:]), 'args': args}


def _int(v, bits=32):
    """cbmc json 'data' -> int"""
    if v is None:
        return None
    s = str(v)
    try:
        return int(s, 0)
    except ValueError:
        try:
            return int(float(s))
        except ValueError:
            return None


def numeric(group, inputs):
    exe = build('numeric_replay', ['numeric-functions.cpp'])
    M = group.defines.get('VERIF_MSIZE')
    tries = []
    if M is not None:
        M = int(str(M).rstrip('uU'), 0)
        if 'in_phase' in inputs and _int(inputs['in_phase']) is not None:
            tries.append(['phase', _int(inputs['in_phase']) & 0xffffffff, M])
        if 'in_mu' in inputs and _int(inputs['in_mu']) is not None and 0 <= _int(inputs['in_mu']) < M:   # only inputs inside the property's domain
            tries.append(['mu', _int(inputs['in_mu']), M])
        tries.append(['sweep', M])
    else:
        if 'in_x' in inputs and _int(inputs['in_x']) is not None:
            tries.append(['conv', _int(inputs['in_x']), _int(inputs.get('in_k', 1)) or 1])
        tries.append(['convsweep'])
    last = None
    for t in tries:
        last = runexe(exe, t)
        if last['confirmed']:
            return last
    return last


LIBCORE = ['numeric-functions.cpp', 'multiplication.cpp', 'autogenerated.cpp', 'lwesamples.cpp', 'lweparams.cpp', 'lwekey.cpp',
           'tlwe.cpp', 'tgsw.cpp', 'lwekeyswitch.cpp', 'toruspolynomial-functions.cpp', 'lwe-functions.cpp']


def woks(group, inputs, fft):
    """F1-style replay: real tfhe_bootstrap_woKS(_FFT) under AddressSanitizer, n > N and n <= N"""
    src = 'lwe-bootstrapping-functions-fft.cpp' if fft else 'lwe-bootstrapping-functions.cpp'
    extra = ['-fsanitize=address', '-fno-omit-frame-pointer', '-DREPLAY_SRC="%s"' % os.path.join(LIB, src)] + (['-DREPLAY_FFT'] if fft else [])
    exe = build('woks_replay', ['numeric-functions.cpp', 'multiplication.cpp', 'autogenerated.cpp', 'lwesamples.cpp', 'lweparams.cpp', 'tlwe.cpp', 'tgsw.cpp', 'lwe-functions.cpp', 'lwekey.cpp'],
                extra, exe_name='woks_replay_fft' if fft else 'woks_replay', stub_undefined=True)
    last = None
    for (n, N) in [(5, 4), (9, 8), (1100, 1024), (4, 4), (3, 8), (1, 1), (630, 1024)]:
        last = runexe(exe, [n, N])
        if last['confirmed']:
            last['detail'] += ' [n=%d, N=%d, AddressSanitizer build of the real function]' % (n, N)
            return last
    return last


LINEAR_SRC = ['lwekeyswitch.cpp', 'lwe-keyswitch-functions.cpp', 'numeric-functions.cpp', 'multiplication.cpp', 'autogenerated.cpp', 'lwesamples.cpp', 'lweparams.cpp', 'lwekey.cpp', 'tlwe.cpp', 'tgsw.cpp',
              'lwe-functions.cpp', 'toruspolynomial-functions.cpp', 'tlwe-functions.cpp', 'lwe.cpp', 'tgsw-functions.cpp']


def linear(group, inputs, fn, *args):
    """input search on the real code: boundary-heavy pseudo-random sweep over many dimensions against the property's oracle"""
    exe = build('linear_replay', LINEAR_SRC, stub_undefined=True)
    return runexe(exe, [fn] + list(args))


def lwe_r(group, inputs, fn):
    return linear(group, inputs, fn)


def decomp_r(group, inputs, L, B):
    r = linear(group, inputs, 'decomp', L, B)
    if r.get('confirmed'):
        return r
    # input search over the whole valid layout grid (cheap natively): a refactor can be right on this layout and wrong on another
    for b in range(1, 31):
        for l in range(1, 33):
            if l * b <= 32 and (l, b) != (L, B) and l <= 16:
                r2 = linear(group, inputs, 'decomp', l, b)
                if r2.get('confirmed'):
                    r2['detail'] += ' [layout l=%d, Bgbit=%d]' % (l, b)
                    return r2
    return r


def full_library_sources():
    srcs = sorted(f for f in os.listdir(LIB) if f.endswith('.cpp'))
    ny = os.path.join('fft_processors', 'nayuki')
    return srcs + [os.path.join(ny, f) for f in ('fft_processor_nayuki.cpp', 'lagrangehalfc_impl.cpp')], [os.path.join(LIB, ny, f) for f in ('fft-x8664-avx-aux.c', 'fft-model-of-x8664-avx.c')]


def gates_r(group, inputs, gate=None):
    """the whole real library (portable FFT) with a real key: every gate / aliasing pattern / truth-table row, both parameter sets in one process"""
    out = os.path.join(core.RUNDIR, 'native')
    os.makedirs(out, exist_ok=True)
    cpp, cfiles = full_library_sources()
    objs = []
    for cf in cfiles:
        o = os.path.join(out, os.path.basename(cf) + '.o')
        p = subprocess.run(['gcc', '-O2', '-c', '-I' + INC, '-o', o, cf], capture_output=True, text=True)
        if p.returncode != 0:
            raise RuntimeError('native build failed: ' + p.stderr[-800:])
        objs.append(o)
    exe = build('gates_replay', cpp, extra=['-O1', '-I' + os.path.join(LIB, 'fft_processors', 'nayuki')] + objs + ['-lpthread'])
    name = gate if gate and gate.startswith('boots') else (group.defines.get('GATE') if hasattr(group, 'defines') else None)
    args = [name] if name else []
    if getattr(group, 'entry', '') == 'h_mux' or 'MUX' in getattr(group, 'name', ''):
        args = ['bootsMUX']
    if 'NOT_COPY' in getattr(group, 'name', ''):
        args = ['NOT_COPY_CONSTANT']
    return runexe(exe, args, timeout=900)


def params_r(group, inputs):
    cpp, cfiles = full_library_sources()
    out = os.path.join(core.RUNDIR, 'native')
    os.makedirs(out, exist_ok=True)
    objs = []
    for cf in cfiles:
        o = os.path.join(out, os.path.basename(cf) + '.o')
        subprocess.run(['gcc', '-O2', '-c', '-I' + INC, '-o', o, cf], capture_output=True, text=True)
        objs.append(o)
    exe = build('params_replay', cpp, extra=['-O1', '-I' + os.path.join(LIB, 'fft_processors', 'nayuki')] + objs + ['-lpthread'])
    return runexe(exe, [])


def io_r(group, inputs, mode=None):
    """C17: whole real library, real keys for small parameter sets, byte-level oracle on the exports (ASan on: an over-read in a writer is a finding)"""
    cpp, cfiles = full_library_sources()
    out = os.path.join(core.RUNDIR, 'native')
    os.makedirs(out, exist_ok=True)
    objs = []
    for cf in cfiles:
        o = os.path.join(out, os.path.basename(cf) + '.o')
        subprocess.run(['gcc', '-O2', '-c', '-I' + INC, '-o', o, cf], capture_output=True, text=True)
        objs.append(o)
    exe = build('io_replay', cpp, extra=['-O1', '-fsanitize=address', '-I' + os.path.join(LIB, 'fft_processors', 'nayuki')] + objs + ['-lpthread'])
    return runexe(exe, [mode] if mode else (['C05'] if getattr(group, 'name', '').startswith('C05') else []))


def keygen_r(group, inputs, kind):
    """C07: the real key generators over 600 seeds, statistical oracle with the property's 8-sigma acceptance regions"""
    exe = build('keygen_replay', LINEAR_SRC, stub_undefined=True)
    return runexe(exe, [kind])


def tgswdec_r(group, inputs):
    """C03 (TGSW): whole real library, several parameter sets one after the other in one process"""
    cpp, cfiles = full_library_sources()
    out = os.path.join(core.RUNDIR, 'native')
    os.makedirs(out, exist_ok=True)
    objs = []
    for cf in cfiles:
        o = os.path.join(out, os.path.basename(cf) + '.o')
        subprocess.run(['gcc', '-O2', '-c', '-I' + INC, '-o', o, cf], capture_output=True, text=True)
        objs.append(o)
    exe = build('tgsw_replay', cpp, extra=['-O1', '-I' + os.path.join(LIB, 'fft_processors', 'nayuki')] + objs + ['-lpthread'])
    return runexe(exe, [])


def blind_r(group, inputs, fft):
    src = 'lwe-bootstrapping-functions-fft.cpp' if fft else 'lwe-bootstrapping-functions.cpp'
    extra = ['-DREPLAY_SRC="%s"' % os.path.join(LIB, src)] + (['-DREPLAY_FFT'] if fft else [])
    exe = build('blind_replay', [], extra, exe_name='blind_replay_fft' if fft else 'blind_replay', stub_undefined=True)
    return runexe(exe, [])


def mult_r(group, inputs, fn, N=None):
    return linear(group, inputs, fn)


def keyswitch_r(group, inputs, T, B, BN):
    r = linear(group, inputs, 'keyswitch', T, B, BN)
    if r.get('confirmed'):
        return r
    for n in (1025, 2049):            # a rewrite that processes the mask in chunks can be right for small n only
        r2 = linear(group, inputs, 'keyswitch', T, B, n)
        if r2.get('confirmed'):
            r2['detail'] += ' [n=%d]' % n
            return r2
    return r


def kscreate_r(group, inputs):
    return linear(group, inputs, 'kscreate')


def pairing_r(group, inputs):
    return linear(group, inputs, 'pairing')


ROUTINES = {'numeric': numeric, 'woks': woks, 'lwe': lwe_r, 'poly': lwe_r, 'extract': lwe_r, 'decomp': decomp_r, 'tlwe': lwe_r,
            'mult': mult_r, 'keyswitch': keyswitch_r, 'pairing': pairing_r, 'gadget': lwe_r, 'kscreate': kscreate_r, 'tgswdec': tgswdec_r, 'gate': gates_r, 'blind': blind_r, 'params': params_r, 'io': io_r, 'keygen': keygen_r, 'iotext': lambda g, i: io_r(g, i, 'C05text'),
            'io18': lambda g, i: (lambda r: r if r.get('confirmed') else io_r(g, i))(io_r(g, i, 'C18'))}


def run(name, group, inputs):
    key = name[0] if isinstance(name, (tuple, list)) else name
    if key not in ROUTINES:
        return {'confirmed': False, 'detail': 'no native replay routine for %r' % (key,)}
    if isinstance(name, (tuple, list)):
        return ROUTINES[key](group, inputs, *name[1:])
    return ROUTINES[key](group, inputs)


def replay_file(path):
    """re-run the native replay recorded in a replay file against the current working tree"""
    doc = json.load(open(path))
    print('property %s group %s' % (doc['property'], doc['group']))
    for o in doc['failed_obligations']:
        print('  failed obligation: %s -- %s (%s:%s)' % (o['name'], o['desc'], o['file'], o['line']))
    spec = doc.get('replay_spec')
    if not spec:
        print('no native replay routine for this group; verifier output follows')
        print(doc.get('verifier_output', ''))
        return 0

    class G:
        pass
    g = G()
    g.defines = doc.get('defines', {})
    g.name = doc['group']
    g.instance = doc.get('instance')
    prev = doc.get('native_replay') or {}
    if prev.get('args'):
        name = spec[0] if isinstance(spec, list) else spec
        exe_name = {'numeric': 'numeric_replay'}.get(name)
    r = run(tuple(spec) if isinstance(spec, list) else spec, g, doc.get('inputs_from_trace', {}))
    print(json.dumps(r, indent=1))
    return 1 if r and r.get('confirmed') else 0
