"""Native replay: compile the REAL .cpp files of the working tree with g++ and run the failing input
(from the verifier's trace, or found by a native boundary sweep) against an oracle written from the
property statement.  Replay confirms or does not confirm; it never creates a violation by itself."""
import json
import os
import signal
import subprocess
import sys

sys.path.insert(0, os.path.dirname(os.path.abspath(__file__)))
import core  # noqa: E402

VERIF = core.VERIF
REPO = core.REPO
LIB = os.path.join(REPO, 'src', 'libtfhe')
INC = os.path.join(REPO, 'src', 'include')


def build(name, sources, extra=()):
    out = os.path.join(core.BUILD, 'native')
    os.makedirs(out, exist_ok=True)
    exe = os.path.join(out, name)
    cmd = ['g++', '-std=gnu++11', '-O0', '-g', '-I' + INC, *extra, '-o', exe,
           os.path.join(VERIF, 'replay', name + '.cpp')] + [os.path.join(LIB, s) for s in sources]
    p = subprocess.run(cmd, capture_output=True, text=True)
    if p.returncode != 0:
        raise RuntimeError('native build failed: ' + p.stderr[-1500:])
    return exe


def runexe(exe, args, timeout=600):
    try:
        p = subprocess.run([exe] + [str(a) for a in args], capture_output=True, text=True, timeout=timeout)
    except subprocess.TimeoutExpired:
        return {'confirmed': False, 'detail': 'native run timed out', 'args': args}
    if p.returncode < 0:
        sig = -p.returncode
        return {'confirmed': True, 'detail': 'real code crashed with signal %d (%s)' % (sig, signal.Signals(sig).name), 'args': args,
                'stdout': p.stdout[-2000:]}
    if p.returncode == 1:
        return {'confirmed': True, 'detail': p.stdout[-2000:], 'args': args}
    if p.returncode == 0:
        return {'confirmed': False, 'detail': 'real code satisfies the oracle on this input', 'args': args}
    return {'confirmed': False, 'detail': 'replay program exit %d: %s' % (p.returncode, (p.stdout + p.stderr)[-500:]), 'args': args}


def _int(v, bits=32):
    """cbmc json 'data' -> int"""
    if v is None:
        return None
    s = str(v)
    try:
        return int(s, 0)
    except ValueError:
        try:
            return int(float(s))
        except ValueError:
            return None


def numeric(group, inputs):
    exe = build('numeric_replay', ['numeric-functions.cpp'])
    M = group.defines.get('VERIF_MSIZE')
    tries = []
    if M is not None:
        M = int(str(M).rstrip('uU'), 0)
        if 'in_phase' in inputs and _int(inputs['in_phase']) is not None:
            tries.append(['phase', _int(inputs['in_phase']) & 0xffffffff, M])
        if 'in_mu' in inputs and _int(inputs['in_mu']) is not None:
            tries.append(['mu', _int(inputs['in_mu']), M])
        tries.append(['sweep', M])
    else:
        if 'in_x' in inputs and _int(inputs['in_x']) is not None:
            tries.append(['conv', _int(inputs['in_x']), _int(inputs.get('in_k', 1)) or 1])
        tries.append(['convsweep'])
    last = None
    for t in tries:
        last = runexe(exe, t)
        if last['confirmed']:
            return last
    return last


ROUTINES = {'numeric': numeric}


def run(name, group, inputs):
    if isinstance(name, (tuple, list)):
        fn = ROUTINES[name[0]]
        return fn(group, inputs, *name[1:])
    return ROUTINES[name](group, inputs)


def replay_file(path):
    """re-run the native replay recorded in a replay file against the current working tree"""
    doc = json.load(open(path))
    print('property %s group %s' % (doc['property'], doc['group']))
    for o in doc['failed_obligations']:
        print('  failed obligation: %s -- %s (%s:%s)' % (o['name'], o['desc'], o['file'], o['line']))
    spec = doc.get('replay_spec')
    if not spec:
        print('no native replay routine for this group; verifier output follows')
        print(doc.get('verifier_output', ''))
        return 0

    class G:
        pass
    g = G()
    g.defines = doc.get('defines', {})
    g.name = doc['group']
    g.instance = doc.get('instance')
    prev = doc.get('native_replay') or {}
    if prev.get('args'):
        name = spec[0] if isinstance(spec, list) else spec
        exe_name = {'numeric': 'numeric_replay'}.get(name)
    r = run(tuple(spec) if isinstance(spec, list) else spec, g, doc.get('inputs_from_trace', {}))
    print(json.dumps(r, indent=1))
    return 1 if r and r.get('confirmed') else 0
