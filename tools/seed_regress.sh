#!/bin/sh
# Regression over the seeded changes: apply each seeded/<id>/patch.diff in a scratch worktree (never in /repo), run the check(s) that
# should catch it with VERIF_REPO pointing there, report exit codes.  usage: tools/seed_regress.sh [seed-id-regex]
cd "$(dirname "$0")/.." || exit 2
WT=/tmp/wt_seedreg
git -C /repo worktree remove --force $WT >/dev/null 2>&1
git -C /repo worktree add -f $WT HEAD >/dev/null 2>&1 || exit 2
for d in seeded/S*; do
  id=$(basename $d); case "$id" in *${1:-}*) ;; *) continue;; esac
  prop=$(python3 -c "import json;m=json.load(open('$d/meta.json'));print(m.get('check_to_run', m['breaks_property']))")
  git -C $WT checkout -q -- . ; git -C $WT apply $PWD/$d/patch.diff 2>/dev/null || { echo "$id: patch does not apply"; continue; }
  VERIF_REPO=$WT ./check $prop > /tmp/seedreg_$id.log 2>&1; rc=$?
  echo "$id $prop exit=$rc $(grep -c '^VIOLATION' /tmp/seedreg_$id.log) violation line(s), $(grep -c 'no-failing-input-found' /tmp/seedreg_$id.log) without native confirmation"
done
git checkout -q -- evidence
git -C /repo worktree remove --force $WT >/dev/null 2>&1
