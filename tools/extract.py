#!/usr/bin/env python3
"""AST-driven extraction of real tfhe function bodies into a C translation unit.

For every requested function the *source bytes of the real file* are copied by byte
range (offsets from `clang++ -Xclang -ast-dump=json -Xclang -ast-dump-filter=<fn>`),
and a fixed list of rewrites (DESIGN.md section 2.1, R1..R10) is applied at AST node
offsets.  Any C++ node kind that is neither plain C nor covered by a rule aborts the
extraction (ExtractionError -> the driver reports UNDECIDED, exit 2, never a violation).

Contract hooks are pasted as preprocessor-guarded macro invocations:

    <signature>
    #ifdef CONTRACT_<fn>
    CONTRACT_<fn>
    #endif
    { ... for (...)
    #ifdef LOOP_<fn>_<k>
    LOOP_<fn>_<k>(<loopvar>)
    #endif
      body ... }

so the very same extracted text serves the unbounded (loop contracts applied) and the
bounded (loop contracts ignored) configurations.
"""
import hashlib
import json
import os
import re
import subprocess
import sys

REPO = os.environ.get('VERIF_REPO', '/repo')
SRC = os.path.join(REPO, 'src', 'libtfhe')
INC = os.path.join(REPO, 'src', 'include')

PLAIN = {
    'CompoundStmt', 'DeclStmt', 'VarDecl', 'ForStmt', 'WhileStmt', 'DoStmt', 'IfStmt',
    'ReturnStmt', 'BinaryOperator', 'UnaryOperator', 'CompoundAssignOperator',
    'ImplicitCastExpr', 'DeclRefExpr', 'IntegerLiteral', 'FloatingLiteral',
    'ArraySubscriptExpr', 'MemberExpr', 'CallExpr', 'ParenExpr', 'CStyleCastExpr',
    'ConditionalOperator', 'ParmVarDecl', 'NullStmt', 'ContinueStmt', 'BreakStmt',
    'StringLiteral', 'UnaryExprOrTypeTraitExpr', 'CharacterLiteral', 'GNUNullExpr',
    'ConstantExpr', 'FullComment', 'ParagraphComment', 'TextComment', 'CXXNullPtrLiteralExpr',
    'BlockCommandComment', 'ParamCommandComment', 'ExprWithCleanups', 'MaterializeTemporaryExpr',
    'CXXBoolLiteralExpr', 'CXXBindTemporaryExpr', 'ImplicitValueInitExpr',
}


class ExtractionError(Exception):
    pass


def _parse_multi(txt):
    dec = json.JSONDecoder()
    i = 0
    out = []
    n = len(txt)
    while i < n:
        while i < n and txt[i].isspace():
            i += 1
        if i >= n:
            break
        o, j = dec.raw_decode(txt, i)
        out.append(o)
        i = j
    return out


_ast_cache = {}


def clang_ast(cpp, flt, extra_flags=()):
    key = (cpp, flt, tuple(extra_flags))
    if key in _ast_cache:
        return _ast_cache[key]
    cmd = ['clang++', '-std=gnu++11', '-fsyntax-only', '-I' + INC, *extra_flags,
           '-Xclang', '-ast-dump=json', '-Xclang', '-ast-dump-filter=' + flt, cpp]
    r = subprocess.run(cmd, capture_output=True, text=True)
    if r.returncode != 0 and not r.stdout.strip():
        raise ExtractionError('clang failed on %s: %s' % (cpp, r.stderr[-2000:]))
    objs = _parse_multi(r.stdout)
    _ast_cache[key] = objs
    return objs


def _is_macro_loc(loc):
    return 'spellingLoc' in loc or 'expansionLoc' in loc


def _off(loc):
    if 'offset' in loc:
        return loc['offset']
    if 'expansionLoc' in loc:
        return loc['expansionLoc']['offset']
    raise ExtractionError('location without offset: %r' % (loc,))


def _end(loc):
    """offset one past the last byte of the token at loc"""
    if 'offset' in loc:
        return loc['offset'] + loc.get('tokLen', 1)
    if 'expansionLoc' in loc:
        raise ExtractionError('node ends inside a macro expansion')
    raise ExtractionError('location without offset: %r' % (loc,))


def _node_in_macro(n):
    r = n.get('range')
    if not r:
        return False
    return _is_macro_loc(r.get('begin', {})) and _is_macro_loc(r.get('end', {}))


def _strip_const(qt):
    qt = qt.strip()
    if qt.endswith('const'):
        return qt[:-5].strip()
    if qt.startswith('const ') and '*' not in qt:
        return qt[6:].strip()
    return qt


class Edits:
    def __init__(self):
        self.items = []  # (start, end, text, seq)

    def insert(self, pos, text):
        self.items.append((pos, pos, text, len(self.items)))

    def replace(self, a, b, text):
        self.items.append((a, b, text, len(self.items)))

    def apply(self, src, lo, hi):
        # non-overlapping replacements + insertions; process left to right
        items = sorted(self.items, key=lambda t: (t[0], t[1] != t[0], t[3]))
        out = []
        cur = lo
        for a, b, text, _ in items:
            if a < lo or b > hi:
                raise ExtractionError('edit outside function range')
            if a < cur:
                raise ExtractionError('overlapping rewrites at offset %d' % a)
            out.append(src[cur:a])
            out.append(text)
            cur = b
        out.append(src[cur:hi])
        return ''.join(out)


def _line_of(src, off):
    return src.count('\n', 0, off) + 1


class FunctionExtractor:
    def __init__(self, cpp_rel, qualname, alias=None, decl_file=None):
        # decl_file: the definition sits in a header (inline constructor); cpp_rel is the translation unit that is parsed
        self.decl_file = os.path.join(INC, decl_file) if decl_file else None
        self.cpp = os.path.join(SRC, cpp_rel) if not os.path.isabs(cpp_rel) else cpp_rel
        self.cpp_rel = cpp_rel
        self.qual = qualname
        self.rules = []
        self.loop_shape = []
        self._depth = 0
        self.nonstatic_locals = set()
        self._skip = False
        self.nloops = 0
        self.is_ctor = False
        self.is_dtor = False
        self.cls = None
        self.alias = alias

    def find_decl(self):
        objs = clang_ast(self.cpp, self.qual)
        base = self.qual.split('::')[-1]
        cands = []

        def visit(o, parent_cls=None):
            k = o.get('kind')
            if k in ('FunctionDecl', 'CXXConstructorDecl', 'CXXMethodDecl', 'CXXDestructorDecl'):
                if o.get('name') == base and any(c.get('kind') == 'CompoundStmt' for c in o.get('inner', [])):
                    cands.append(o)
            for c in o.get('inner', []) or []:
                if c.get('kind') in ('LinkageSpecDecl', 'NamespaceDecl', 'FunctionDecl', 'CXXConstructorDecl',
                                     'CXXMethodDecl', 'CXXDestructorDecl', 'CXXRecordDecl'):
                    visit(c)
        for o in objs:
            visit(o)
        # keep those defined in the main file
        good = []
        want = os.path.abspath(self.decl_file or self.cpp)
        wsrc = open(want, 'rb').read().decode('latin-1')
        for o in cands:
            loc = o.get('loc', {})
            f = loc.get('file') or loc.get('expansionLoc', {}).get('file')
            off = loc.get('offset')
            nm = o.get('name', '')
            # clang omits 'file' when it is unchanged from the previous node: validate by the token at the offset
            at = off is not None and wsrc[off:off + len(nm)] == nm
            if (f is None and at) or (f is not None and os.path.abspath(f) == want and at):
                good.append(o)
        if '::' in self.qual:
            cls = self.qual.split('::')[0]
            g2 = []
            for o in good:
                if o['kind'] == 'CXXConstructorDecl' or o['kind'] == 'CXXDestructorDecl' or o['kind'] == 'CXXMethodDecl':
                    g2.append(o)
            good = g2
            self.cls = cls
        if len(good) != 1:
            raise ExtractionError('%s: expected exactly one definition of %s, found %d' % (self.cpp_rel, self.qual, len(good)))
        return good[0]

    def extract(self):
        self.srcfile = self.decl_file or self.cpp
        with open(self.srcfile, 'rb') as f:
            raw = f.read()
        try:
            src = raw.decode('utf-8')
            if len(src) != len(raw):
                # offsets are byte offsets: work on latin-1 view to keep 1 byte == 1 char
                src = raw.decode('latin-1')
                self.latin = True
            else:
                self.latin = False
        except UnicodeDecodeError:
            src = raw.decode('latin-1')
            self.latin = True
        self.src = src
        d = self.find_decl()
        kind = d['kind']
        self.is_ctor = kind == 'CXXConstructorDecl'
        self.is_dtor = kind == 'CXXDestructorDecl'
        if kind == 'CXXMethodDecl':
            raise ExtractionError('method extraction not supported: ' + self.qual)
        body = [c for c in d['inner'] if c.get('kind') == 'CompoundStmt'][0]
        fb = _off(d['range']['begin'])
        fe = _end(d['range']['end'])
        bb = _off(body['range']['begin'])
        if _is_macro_loc(d['range']['begin']) and 'offset' not in d['range']['begin']:
            raise ExtractionError('function defined by a macro expansion: ' + self.qual)
        self.ed = Edits()
        self.fname = self.alias or self.qual.replace('::~', '__dtor_').replace('::', '__ctor_')
        if self.is_ctor:
            self.fname = self.alias or (self.cls + '__ctor')
        if self.is_dtor:
            self.fname = self.alias or (self.cls + '__dtor')
        self.loop_hooks = []
        # ---- signature
        params = [c for c in d['inner'] if c.get('kind') == 'ParmVarDecl']
        self.refvars = set()
        for prm in params:
            qt = prm.get('type', {}).get('qualType', '')
            if qt.endswith('&'):
                # R8: reference parameter -> pointer parameter (same object, C has no references)
                pb, pe = _off(prm['range']['begin']), _end(prm['range']['end'])
                amp = self.src.rfind('&', pb, pe)
                if amp < 0:
                    raise ExtractionError('reference parameter without & token')
                self.ed.replace(amp, amp + 1, '*')
                self.refvars.add(prm.get('id'))
                self.rules.append('R8')
            if prm.get('init'):
                # R13: default argument dropped from the signature (C has none); a call that relies on it is refused (v_CXXDefaultArgExpr)
                pb, pe = _off(prm['range']['begin']), _end(prm['range']['end'])
                ex = [c for c in prm.get('inner', []) if 'range' in c]
                eq = self.src.rfind('=', pb, _off(ex[-1]['range']['begin'])) if ex else -1
                if eq < 0:
                    raise ExtractionError('default argument without = token')
                self.ed.replace(eq, pe, '')
                self.rules.append('R13')
        if self.is_ctor or self.is_dtor:
            ptxt = [src[_off(p['range']['begin']):_end(p['range']['end'])] for p in params]
            sig = '%s* %s(%s)' % (self.cls, self.fname, ', '.join(['%s* self' % self.cls] + ptxt))
            self.rules.append('R5' if self.is_ctor else 'R5b')
        else:
            sig = self.render(fb, bb).rstrip()
            if 'std::' in sig:
                sig = sig.replace('std::', 'std__')      # R15: C++ stream types in a signature become opaque C struct names
                self.rules.append('R15')
            if self.alias:
                nm = d['name']
                sig2, n = re.subn(r'\b%s\b' % re.escape(nm), self.alias, sig, count=1)
                if n != 1:
                    raise ExtractionError('cannot rename ' + nm)
                sig = sig2
            sc = d.get('storageClass')
            if sc == 'static':
                sig = re.sub(r'^\s*static\s+', '', sig)
            # R1: EXPORT precedes range.begin, so it is already outside [fb, bb)
        # ---- ctor initialisers -> assignments at the top of the body
        init_stmts = []
        if self.is_ctor:
            for c in d['inner']:
                if c.get('kind') == 'CXXCtorInitializer':
                    ai = c.get('anyInit')
                    if not ai:
                        raise ExtractionError('base/delegating initialiser not supported in ' + self.qual)
                    e = c['inner'][0]
                    ty = _strip_const(ai['type']['qualType'])
                    if e.get('kind') == 'CXXConstructExpr':
                        # member sub-object initialised by its own constructor: member(args) -> T__ctor(&self->member, args)
                        atx = []
                        for a in e.get('inner', []) or []:
                            self.walk(a)
                            atx.append(self.render(_off(a['range']['begin']), _end(a['range']['end'])))
                        init_stmts.append('%s__ctor((%s*)&self->%s%s);' % (ty, ty, ai['name'], ''.join(', ' + x for x in atx)))
                        self.rules.append('R5')
                        continue
                    self.walk(e)
                    etxt = self.render(_off(e['range']['begin']), _end(e['range']['end']))
                    init_stmts.append('*(%s*)&self->%s = (%s);' % (ty, ai['name'], etxt))
        # ---- body
        self.walk(body)
        btxt = self.render(bb, fe)
        if init_stmts:
            btxt = '{ ' + ' '.join(init_stmts) + ' ' + btxt[1:]
        if self.is_ctor or self.is_dtor:
            # return self
            idx = btxt.rstrip().rfind('}')
            tail = ''
            if self.is_dtor:
                # R5d: after the destructor body C++ destroys, in reverse order of declaration, every member sub-object whose class declares a destructor
                for (fname_, ftype_) in reversed(member_objects_with_destructor(self.cpp, self.cls)):
                    tail += ' %s__dtor((%s*)&self->%s);' % (ftype_, ftype_, fname_)
                    self.rules.append('R5d')
            btxt = btxt[:idx] + tail + ' return self; }' + btxt[idx + 1:]
        line = _line_of(src, bb)
        sline = _line_of(src, fb)
        out = []
        out.append('#line %d "%s"' % (sline, self.srcfile))
        out.append(sig)
        out.append('#ifdef CONTRACT_%s' % self.fname)
        out.append('CONTRACT_%s' % self.fname)
        out.append('#endif')
        out.append('#line %d "%s"' % (line, self.srcfile))
        out.append(btxt)
        text = '\n'.join(out) + '\n'
        if self.latin:
            text = text.encode('latin-1').decode('utf-8', errors='replace')
        real = src[fb:fe]
        return {
            'file': self.srcfile, 'function': self.qual, 'c_name': self.fname,
            'byte_range': [fb, fe], 'line': sline,
            'sha256_source': hashlib.sha256(real.encode('latin-1' if self.latin else 'utf-8')).hexdigest(),
            'sha256_extracted': hashlib.sha256(text.encode('utf-8')).hexdigest(),
            'rules': sorted(set(self.rules)), 'loops': self.nloops, 'loop_shape': self.loop_shape, 'text': text,
        }

    def render(self, lo, hi):
        sub = Edits()
        rest = []
        for it in self.ed.items:
            if it[0] >= lo and it[1] <= hi:
                sub.items.append(it)
            else:
                rest.append(it)
        self.ed.items = rest
        return sub.apply(self.src, lo, hi)

    # ------------------------------------------------------------------ walk
    def walk(self, n):
        k = n.get('kind')
        if k is None:
            return
        if _node_in_macro(n):
            # copied as written; the C headers expand the macro (assert, UINT64_C, ...)
            self.note_macro(n)
            return
        h = getattr(self, 'v_' + k, None)
        if h is not None:
            return h(n)
        if k not in PLAIN:
            raise ExtractionError('%s: unsupported AST node %s in %s' % (self.cpp_rel, k, self.qual))
        if k == 'VarDecl':
            self._skip = False
            self.vardecl(n)
            if self._skip:
                return
        for c in n.get('inner', []) or []:
            self.walk(c)

    def note_macro(self, n):
        pass

    def vardecl(self, n):
        if n.get('storageClass') == 'static':
            b = _off(n['range']['begin'])
            if self.src[b:b + 6] != 'static':
                raise ExtractionError('static local without leading static token')
            # does the initialiser depend on a parameter or on a non-static local?  Then once-only initialisation is
            # observable (the value of the FIRST call sticks) and must be kept: R3b.  Otherwise R3 (drop `static`).
            dep = []

            def scan(x):
                if x.get('kind') == 'DeclRefExpr':
                    rd = x.get('referencedDecl', {})
                    if rd.get('kind') == 'ParmVarDecl':
                        dep.append(rd.get('name'))
                    elif rd.get('kind') == 'VarDecl' and rd.get('id') in self.nonstatic_locals:
                        dep.append(rd.get('name'))
                for c in x.get('inner', []) or []:
                    scan(c)
            for c in n.get('inner', []) or []:
                scan(c)
            if not dep:
                self.ed.replace(b, b + 6, '      ')
                self.rules.append('R3')
            else:
                e = _end(n['range']['end'])
                nameoff = _off(n['loc'])
                name = n['name']
                ty = self.src[b + 6:nameoff].strip()
                ty = re.sub(r'\bconst\b', '', ty).strip()
                init = [c for c in n.get('inner', []) if c.get('kind') not in (None,)]
                if not init:
                    raise ExtractionError('static local without initialiser depends on a parameter?')
                ie = init[-1]
                itxt = self.src[_off(ie['range']['begin']):_end(ie['range']['end'])]
                self.ed.replace(b, e, 'static %s %s; static int %s__verif_init; if (!%s__verif_init) { %s = (%s); %s__verif_init = 1; }'
                                % (ty, name, name, name, name, itxt, name))
                self.rules.append('R3b')
                self._skip = True
                return
        elif n.get('id'):
            self.nonstatic_locals.add(n['id'])
            qt = n.get('type', {}).get('qualType', '')
            ce = [c for c in n.get('inner', []) if c.get('kind') == 'CXXConstructExpr']
            if ce and not (ce[0].get('inner') or []) and re.match(r'^\w+$', qt):
                # R14b: `T x;` where T is a plain struct of this file (trivial default constructor: no code) -> copied as written
                extract_plain_struct(self.cpp_rel, qt)        # raises unless T is plain
                self.rules.append('R14b')
                self._skip = True
                return
            if qt.endswith('&'):
                # R8b: local reference  T &x = e;  ->  T *x = &(e);  uses x.m -> x->m
                b = _off(n['range']['begin']); e = _end(n['range']['end'])
                nameoff = _off(n['loc'])
                amp = self.src.rfind('&', b, nameoff)
                init = [c for c in n.get('inner', []) if c.get('kind')]
                if amp < 0 or not init:
                    raise ExtractionError('unsupported reference local')
                ib = _off(init[-1]['range']['begin'])
                self.ed.replace(amp, amp + 1, '*')
                self.ed.insert(ib, '&(')
                self.ed.insert(e, ')')
                self.refvars.add(n['id'])
                self.rules.append('R8b')
        t = n.get('type', {}).get('qualType', '')
        if 'distribution' in t:
            raise ExtractionError('sampler object (R9) not enabled for ' + self.qual)

    def _loop(self, n, var, pos):
        k = self.nloops
        self.nloops += 1
        self.loop_shape.append(['Loop', self._depth])     # for/while are interchangeable for the contracts; nesting is what matters
        ln = _line_of(self.src, pos)
        self.ed.insert(pos, '\n#ifdef LOOP_%s_%d\nLOOP_%s_%d(%s)\n#endif\n#line %d\n' % (self.fname, k, self.fname, k, var, ln))

    def v_ForStmt(self, n):
        inner = n['inner']
        var = ''
        init = inner[0]
        if init.get('kind') == 'DeclStmt':
            vd = [c for c in init.get('inner', []) if c.get('kind') == 'VarDecl']
            if vd:
                var = vd[0]['name']
        elif init.get('kind') == 'BinaryOperator':
            lhs = init['inner'][0]
            if lhs.get('kind') == 'DeclRefExpr':
                var = lhs['referencedDecl']['name']
        body = inner[-1]
        self._loop(n, var, _off(body['range']['begin']))
        self._depth += 1
        for c in inner:
            self.walk(c)
        self._depth -= 1

    @staticmethod
    def _first_var(x):
        if x.get('kind') == 'DeclRefExpr' and x.get('referencedDecl', {}).get('kind') == 'VarDecl':
            return x['referencedDecl']['name']
        for c in x.get('inner', []) or []:
            v = FunctionExtractor._first_var(c)
            if v:
                return v
        return ''

    def v_WhileStmt(self, n):
        body = n['inner'][-1]
        # a `while (i < n)` rewrite of a counted `for` keeps its loop contract: the loop variable is the first variable of the condition
        self._loop(n, self._first_var(n['inner'][0]) if n['inner'] and n['inner'][0] else '', _off(body['range']['begin']))
        self._depth += 1
        for c in n['inner']:
            self.walk(c)
        self._depth -= 1

    def v_DoStmt(self, n):
        self._loop(n, '', _end(n['range']['end']))
        self._depth += 1
        for c in n['inner']:
            self.walk(c)
        self._depth -= 1

    def v_CXXFunctionalCastExpr(self, n):
        b = _off(n['range']['begin'])
        e = _end(n['range']['end'])
        sub = n['inner'][0]
        sb = _off(sub['range']['begin'])
        p = self.src.rfind('(', b, sb + 1) if self.src[sb] == '(' and False else self.src.find('(', b)
        if p < 0 or p >= e:
            raise ExtractionError('functional cast without parenthesis')
        self.ed.insert(b, '((')
        self.ed.insert(p, ')')
        self.ed.insert(e, ')')
        self.rules.append('R2')
        for c in n['inner']:
            self.walk(c)

    def v_CXXStaticCastExpr(self, n):
        raise ExtractionError('static_cast outside a macro expansion in ' + self.qual)

    def v_CXXThisExpr(self, n):
        if n.get('implicit'):
            return
        b = _off(n['range']['begin'])
        self.ed.replace(b, b + 4, 'self')
        self.rules.append('R5')

    def _refbase(self, x):
        while x.get('kind') in ('ImplicitCastExpr', 'ParenExpr'):
            x = x['inner'][0]
        if x.get('kind') == 'DeclRefExpr' and x.get('referencedDecl', {}).get('id') in getattr(self, 'refvars', ()):
            return x
        return None

    def v_MemberExpr(self, n):
        inner = n.get('inner', [])
        if inner and not n.get('isArrow') and self._refbase(inner[0]) is not None:
            be = _end(inner[0]['range']['end'])
            dot = self.src.find('.', be)
            if dot < 0 or self.src[be:dot].strip():
                raise ExtractionError('cannot find . after reference variable')
            self.ed.replace(dot, dot + 1, '->')
            self.rules.append('R8b')
            return
        if inner and inner[0].get('kind') == 'CXXThisExpr' and inner[0].get('implicit'):
            b = _off(n['range']['begin'])
            self.ed.insert(b, 'self->')
            self.rules.append('R5')
            return
        for c in inner:
            self.walk(c)

    def v_CXXNewExpr(self, n):
        b = _off(n['range']['begin'])
        e = _end(n['range']['end'])
        qt = n['type']['qualType']  # pointer type of the result
        elem = qt.rstrip()
        assert elem.endswith('*')
        elem = elem[:-1].strip()
        inner = n.get('inner', [])
        if n.get('isArray'):
            if n.get('isPlacement'):
                raise ExtractionError('placement array new')
            size = inner[0]
            # constructor-bearing class arrays are not supported
            for c in inner[1:]:
                if c.get('kind') == 'CXXConstructExpr':
                    raise ExtractionError('array new of class type')
            sb = _off(size['range']['begin'])
            se = _end(size['range']['end'])
            if self.src[se:e].strip() != ']':
                raise ExtractionError('unexpected array-new shape: %r' % self.src[b:e])
            self.ed.replace(b, sb, '((%s*)verif_alloc(((size_t)(' % elem)
            self.ed.replace(se, e, '))*sizeof(%s)))' % elem)
            self.rules.append('R4')
            self.walk(size)
            return
        # single object: new T(args) / new(p) T(args)
        ce = [c for c in inner if c.get('kind') == 'CXXConstructExpr']
        if len(ce) != 1:
            raise ExtractionError('unsupported scalar new: %r' % self.src[b:e])
        ce = ce[0]
        placement = [c for c in inner if c is not ce]
        args = ce.get('inner', []) or []
        cb = _off(ce['range']['begin'])
        # text between cb and first '(' is the type name
        p = self.src.find('(', cb)
        if args:
            ab = _off(args[0]['range']['begin'])
            if p < 0 or p > ab:
                raise ExtractionError('cannot find ctor argument list')
        if n.get('isPlacement'):
            if len(placement) != 1:
                raise ExtractionError('placement new shape')
            pl = placement[0]
            ptxt = self.src[_off(pl['range']['begin']):_end(pl['range']['end'])]
            target = '(%s)' % ptxt
        else:
            target = '(%s*)verif_alloc(sizeof(%s))' % (elem, elem)
        sep = ', ' if args else ''
        self.ed.replace(b, p + 1, '%s__ctor(%s%s' % (elem, target, sep))
        self.rules.append('R5')
        for a in args:
            self.walk(a)

    def v_CXXDeleteExpr(self, n):
        b = _off(n['range']['begin'])
        e = _end(n['range']['end'])
        sub = n['inner'][0]
        sb = _off(sub['range']['begin'])
        if n.get('isArray'):
            self.ed.replace(b, sb, 'free(')
            self.ed.insert(e, ')')
            self.rules.append('R4')
            self.walk(sub)
        else:
            # delete p  ->  (T__dtor(p), free(p))
            t = sub
            while t.get('kind') == 'ImplicitCastExpr':
                t = t['inner'][0]
            qt = t['type']['qualType'].replace('const', '').strip()
            if not qt.endswith('*'):
                raise ExtractionError('delete of non-pointer')
            elem = qt[:-1].strip()
            ptxt = self.src[sb:e]
            self.ed.replace(b, e, '(%s__dtor((%s*)(%s)), free((void*)(%s)))' % (elem, elem, ptxt, ptxt))
            self.rules.append('R5b')
        # operand is a plain lvalue; no further rewriting inside

    def v_CXXMemberCallExpr(self, n):
        callee = n['inner'][0]
        b = _off(n['range']['begin'])
        e = _end(n['range']['end'])
        if callee.get('kind') == 'MemberExpr' and callee.get('name', '').startswith('~'):
            cls = callee['name'][1:]
            obj = callee['inner'][0]
            otxt = self.src[_off(obj['range']['begin']):_end(obj['range']['end'])]
            if not callee.get('isArrow'):
                otxt = '&(%s)' % otxt
            self.ed.replace(b, e, '%s__dtor(%s)' % (cls, otxt))
            self.rules.append('R5b')
            return
        if callee.get('kind') == 'MemberExpr' and callee.get('name') in ('fread', 'fwrite') and self._refbase(callee['inner'][0]) is not None:
            # R8: F.fread(p, n) / F.fwrite(p, n) on the stream parameter -> Istream_fread(F, p, n) / Ostream_fwrite(F, p, n)
            # (virtual dispatch: one stub contract for both stream classes)
            obj = self._refbase(callee['inner'][0])
            oname = obj['referencedDecl']['name']
            cb = _off(callee['range']['begin']); ce = _end(callee['range']['end'])
            par = self.src.find('(', ce)
            self.ed.replace(cb, par + 1, '%s_%s(%s, ' % ('Istream' if callee['name'] == 'fread' else 'Ostream', callee['name'], oname))
            self.rules.append('R8')
            for a in n['inner'][1:]:
                self.walk(a)
            return
        raise ExtractionError('member call not supported: %r' % self.src[b:e])

    def v_CallExpr(self, n):
        callee = n['inner'][0]
        t = callee
        while t.get('kind') == 'ImplicitCastExpr':
            t = t['inner'][0]
        if t.get('kind') == 'DeclRefExpr' and t.get('referencedDecl', {}).get('name') == 'swap':
            args = n['inner'][1:]
            if len(args) != 2:
                raise ExtractionError('swap arity')
            a = self.src[_off(args[0]['range']['begin']):_end(args[0]['range']['end'])]
            bb = self.src[_off(args[1]['range']['begin']):_end(args[1]['range']['end'])]
            b = _off(n['range']['begin'])
            e = _end(n['range']['end'])
            self.ed.replace(b, e, '{ void* verif_swap_t = (void*)(%s); (%s) = (%s); (%s) = verif_swap_t; }' % (a, a, bb, bb))
            self.rules.append('R6')
            return
        if t.get('kind') == 'DeclRefExpr' and t.get('referencedDecl', {}).get('kind') == 'CXXMethodDecl':
            # R11: call of a static member function  A::f(args) -> A__f(args)
            b = _off(t['range']['begin'])
            e = _end(t['range']['end'])
            txt = self.src[b:e]
            if '::' not in txt:
                raise ExtractionError('unqualified static method call')
            self.ed.replace(b, e, txt.replace('::', '__'))
            self.rules.append('R11')
            for c in n['inner'][1:]:
                self.walk(c)
            return
        if t.get('kind') == 'DeclRefExpr' and t.get('referencedDecl', {}).get('name') in ('to_Ostream', 'to_Istream'):
            # R15: to_Ostream(F) / to_Istream(F) build a stream adapter object around a FILE* or a C++ stream (two overloads, returned by
            # value and bound to a base-class reference).  In C: one declared-only function per overload returning the adapter's address.
            ft = t.get('type', {}).get('qualType', '')
            flavour = 'FILE' if 'FILE' in ft else ('std' if 'stream' in ft else None)
            if flavour is None:
                raise ExtractionError('unknown overload of %s: %s' % (t['referencedDecl']['name'], ft))
            b = _off(t['range']['begin'])
            e = _end(t['range']['end'])
            self.ed.replace(b, e, 'verif_%s_%s' % (t['referencedDecl']['name'], flavour))
            self.rules.append('R15')
            for c in n['inner'][1:]:
                self.walk(c)
            return
        dflt = [i for i, c in enumerate(n['inner'][1:]) if c.get('kind') == 'CXXDefaultArgExpr']
        if dflt:
            # R13b: the call omits trailing arguments that have defaults: write the callee's default expressions out (C has none)
            if t.get('kind') != 'DeclRefExpr' or t.get('referencedDecl', {}).get('kind') != 'FunctionDecl':
                raise ExtractionError('default argument in a call whose callee is not a plain function in ' + self.qual)
            texts = [default_arg_text(self.cpp_rel, t['referencedDecl']['name'], i) for i in dflt]
            e = _end(n['range']['end'])
            if self.src[e - 1] != ')':
                raise ExtractionError('call does not end with )')
            self.ed.insert(e - 1, (', ' if dflt[0] > 0 else '') + ', '.join(texts))
            self.rules.append('R13b')
            for c in n['inner']:
                if c.get('kind') != 'CXXDefaultArgExpr':
                    self.walk(c)
            return
        for c in n['inner']:
            self.walk(c)

    def v_CXXDefaultArgExpr(self, n):
        raise ExtractionError('call relies on a default argument (R13 drops them) in ' + self.qual)

    def v_CXXOperatorCallExpr(self, n):
        raise ExtractionError('operator call (R9 sampler rule not enabled) in ' + self.qual)

    def v_CXXConstructExpr(self, n):
        raise ExtractionError('constructor expression outside new in ' + self.qual)

    def v_GCCAsmStmt(self, n):
        raise ExtractionError('inline assembly in active branch of ' + self.qual)


class SamplerExtractor(FunctionExtractor):
    """R9: libstdc++ sampler objects -> declared-only draw functions (assumed contracts)."""

    def vardecl(self, n):
        t = n.get('type', {}).get('qualType', '')
        if 'normal_distribution' in t or 'uniform_int_distribution' in t:
            kind = 'normal' if 'normal_distribution' in t else 'uniform_int'
            b = _off(n['range']['begin'])
            e = _end(n['range']['end'])
            ce = [c for c in n.get('inner', []) if c.get('kind') == 'CXXConstructExpr']
            if len(ce) != 1:
                raise ExtractionError('sampler declaration shape')
            args = ce[0].get('inner', [])
            if len(args) != 2:
                raise ExtractionError('sampler ctor arity')
            atxt = [self.src[_off(a['range']['begin']):_end(a['range']['end'])] for a in args]
            if n.get('storageClass') == 'static':
                # a static sampler object is constructed once per process with the arguments of the FIRST call: keep that (R3b)
                nm = n['name']
                self.ed.replace(b, e, 'static verif_%s_t %s; static int %s__verif_init; if (!%s__verif_init) { %s = verif_%s_init(%s, %s); %s__verif_init = 1; }'
                                % (kind, nm, nm, nm, nm, kind, atxt[0], atxt[1], nm))
                self.rules.append('R3b')
            else:
                self.ed.replace(b, e, 'verif_%s_t %s = verif_%s_init(%s, %s)' % (kind, n['name'], kind, atxt[0], atxt[1]))
            self.rules.append('R9')
            self._skip_children = True
            return
        return FunctionExtractor.vardecl(self, n)

    def walk(self, n):
        if n.get('kind') == 'VarDecl':
            t = n.get('type', {}).get('qualType', '')
            if 'normal_distribution' in t or 'uniform_int_distribution' in t:
                self.vardecl(n)
                return
        return FunctionExtractor.walk(self, n)

    def v_CXXOperatorCallExpr(self, n):
        b = _off(n['range']['begin'])
        e = _end(n['range']['end'])
        inner = n['inner']
        # inner[0] = operator() ref, inner[1] = object, inner[2] = generator
        if len(inner) != 3:
            # e.g. `generator()`: raw engine output used directly -- outside the sampler contracts (the engine's range and bit quality are not modelled)
            raise ExtractionError('operator call that is not a distribution(generator) draw (raw engine output?) in ' + self.qual)
        obj = inner[1]
        while obj.get('kind') == 'ImplicitCastExpr':
            obj = obj['inner'][0]
        gen = inner[2]
        while gen.get('kind') == 'ImplicitCastExpr':
            gen = gen['inner'][0]
        if gen.get('kind') != 'DeclRefExpr' or gen['referencedDecl']['name'] != 'generator':
            raise ExtractionError('sampler draw not on the library generator')
        if obj.get('kind') != 'DeclRefExpr':
            raise ExtractionError('sampler object shape')
        name = obj['referencedDecl']['name']
        t = obj['type']['qualType']
        if name == 'uniformTorus32_distrib':
            self.ed.replace(b, e, 'verif_draw_uniform_torus32()')
        elif name == 'uniformInt_distrib':
            self.ed.replace(b, e, 'verif_draw_uniform_int()')
        elif 'normal_distribution' in t:
            self.ed.replace(b, e, 'verif_normal_draw(&%s)' % name)
        elif 'uniform_int_distribution' in t:
            self.ed.replace(b, e, 'verif_uniform_int_draw(&%s)' % name)
        else:
            raise ExtractionError('unknown sampler ' + name)
        self.rules.append('R9')

    def v_CXXConstructExpr(self, n):
        raise ExtractionError('constructor expression outside new in ' + self.qual)


def references(cpp_rel, qualname):
    """names of every declaration referenced from the body of a function (macro expansions included): supporting static fact"""
    fx = FunctionExtractor(cpp_rel, qualname)
    d = fx.find_decl()
    out = set()

    def walk(n):
        if n.get('kind') == 'DeclRefExpr':
            rd = n.get('referencedDecl', {})
            if rd.get('name'):
                out.add(rd['name'])
        if n.get('kind') == 'MemberExpr' and n.get('name'):
            pass
        for c in n.get('inner', []) or []:
            walk(c)
    walk(d)
    return out


def callees_in_file(cpp_rel, qualname):
    """names of functions called from qualname that are DEFINED (with a body) in the same file"""
    fx = FunctionExtractor(cpp_rel, qualname)
    d = fx.find_decl()
    names = []

    def walk(n):
        if n.get('kind') == 'DeclRefExpr':
            rd = n.get('referencedDecl', {})
            if rd.get('kind') == 'FunctionDecl' and rd.get('name') and rd['name'] not in names:
                names.append(rd['name'])
        for c in n.get('inner', []) or []:
            walk(c)
    walk(d)
    out = []
    for nm in names:
        try:
            FunctionExtractor(cpp_rel, nm).find_decl()
            out.append(nm)
        except ExtractionError:
            pass
    return out


def closure_order(cpp_rel, root, skip=()):
    """root and every helper it (transitively) calls that is defined in the same file, callees first"""
    order = []
    seen = set(skip)

    def visit(fn):
        if fn in seen:
            return
        seen.add(fn)
        for c in callees_in_file(cpp_rel, fn):
            visit(c)
        order.append(fn)
    visit(root)
    return order


def extract_template_macro():
    """tfhe_generic_templates.h: the USE_DEFAULT_CONSTRUCTOR_DESTRUCTOR_IMPLEMENTATIONS1 macro text,
    copied verbatim from the real header (it sits inside #ifdef __cplusplus / namespace tfhe)."""
    p = os.path.join(INC, 'tfhe_generic_templates.h')
    lines = open(p).read().split('\n')
    out = []
    on = False
    for ln in lines:
        if ln.lstrip().startswith('#define USE_DEFAULT_CONSTRUCTOR_DESTRUCTOR_IMPLEMENTATIONS1'):
            on = True
        if on:
            out.append(ln)
            if not ln.rstrip().endswith('\\'):
                break
    if not out:
        raise ExtractionError('template macro not found')
    return '\n'.join(out) + '\n'


def extract_cxx_constants():
    """numeric_functions.h: the file-scope `static const` constants of the __cplusplus-only section."""
    p = os.path.join(INC, 'numeric_functions.h')
    out = []
    for ln in open(p).read().split('\n'):
        if re.match(r'\s*static\s+const\s+(int64_t|double)\s+_two\w+\s*=', ln):
            out.append(ln)
    if len(out) < 2:
        raise ExtractionError('numeric_functions.h constants not found')
    return '\n'.join(out) + '\n'


_record_cache = {}


def _record_decl(cpp, cls):
    key = (cpp, cls)
    if key not in _record_cache:
        found = [None]

        def visit(o):
            if o.get('kind') == 'CXXRecordDecl' and o.get('name') == cls and o.get('completeDefinition') and found[0] is None:
                found[0] = o
            for c in o.get('inner', []) or []:
                if c.get('kind') in ('LinkageSpecDecl', 'NamespaceDecl', 'CXXRecordDecl', 'TranslationUnitDecl'):
                    visit(c)
        for o in clang_ast(cpp, cls):
            visit(o)
        _record_cache[key] = found[0]
    return _record_cache[key]


def member_objects_with_destructor(cpp, cls):
    """[(field name, class name)] of the by-value members of `cls` whose own class declares a destructor, in declaration order"""
    d = _record_decl(cpp, cls)
    if d is None:
        raise ExtractionError('definition of class %s not found' % cls)
    out = []
    for c in d.get('inner', []) or []:
        if c.get('kind') != 'FieldDecl':
            continue
        qt = _strip_const(c.get('type', {}).get('qualType', '')).strip()
        if not re.match(r'^[A-Z]\w*$', qt):
            continue            # pointers, scalars, typedef'd integers
        md = _record_decl(cpp, qt)
        if md is None:
            continue
        if any(x.get('kind') == 'CXXDestructorDecl' and not x.get('isImplicit') for x in md.get('inner', []) or []):
            out.append((c['name'], qt))
    return out


def default_arg_text(cpp_rel, callee, index):
    """source text of the default value of parameter `index` of `callee`, which must be defined in the same file (literals only)"""
    fx = FunctionExtractor(cpp_rel, callee)
    fx.src = open(fx.cpp, 'rb').read().decode('latin-1')
    d = fx.find_decl()
    params = [c for c in d['inner'] if c.get('kind') == 'ParmVarDecl']
    if index >= len(params) or not params[index].get('init'):
        raise ExtractionError('%s: parameter %d has no default value' % (callee, index))
    ex = [c for c in params[index].get('inner', []) if 'range' in c]
    txt = fx.src[_off(ex[-1]['range']['begin']):_end(ex[-1]['range']['end'])].strip()
    if not re.match(r'^(0x[0-9a-fA-F]+|\d+|true|false|NULL|nullptr)$', txt):
        raise ExtractionError('%s: default value %r is not a literal' % (callee, txt))
    return '0' if txt == 'nullptr' else txt


def extract_plain_struct(cpp_rel, name):
    """R14: a file-scope plain-data struct defined in a .cpp file (only scalar / pointer fields, no methods, no bases):
    the definition is copied verbatim and given the C typedef that C++ implies."""
    cpp = os.path.join(SRC, cpp_rel)
    src = open(cpp, 'rb').read().decode('latin-1')
    objs = clang_ast(cpp, name)
    cands = []
    for o in objs:
        if o.get('kind') == 'CXXRecordDecl' and o.get('name') == name and o.get('completeDefinition'):
            off = o.get('loc', {}).get('offset')
            if off is not None and src[off:off + len(name)] == name:
                cands.append(o)
    if len(cands) != 1:
        raise ExtractionError('%s: expected exactly one definition of struct %s, found %d' % (cpp_rel, name, len(cands)))
    d = cands[0]
    if d.get('tagUsed') != 'struct' or d.get('bases'):
        raise ExtractionError('struct %s is not a plain struct' % name)
    for c in d.get('inner', []) or []:
        k = c.get('kind')
        if k == 'FieldDecl':
            if any(x.get('kind') not in (None,) for x in c.get('inner', []) or []):
                raise ExtractionError('struct %s: field %s has an initialiser' % (name, c.get('name')))
            continue
        if k == 'CXXRecordDecl' and c.get('isImplicit'):
            continue
        if c.get('isImplicit'):
            continue
        raise ExtractionError('struct %s has a member that is not a plain field: %s' % (name, k))
    b, e = _off(d['range']['begin']), _end(d['range']['end'])
    body = src[b:e]
    line = src.count('\n', 0, b) + 1
    text = 'typedef struct %s %s;\n#line %d "%s"\n%s;\n' % (name, name, line, cpp, body)
    return {'file': cpp, 'function': 'struct ' + name, 'c_name': 'struct ' + name, 'byte_range': [b, e], 'line': line,
            'sha256_source': hashlib.sha256(body.encode('latin-1')).hexdigest(), 'sha256_extracted': hashlib.sha256(text.encode('latin-1')).hexdigest(),
            'rules': ['R14'], 'loops': 0, 'loop_shape': [], 'text': text}


def extract_uid_constants():
    """tfhe_generic_streams.h: the binary type tags (file-scope `const int32_t X_TYPE_UID = n;`)"""
    p = os.path.join(INC, 'tfhe_generic_streams.h')
    out = [ln for ln in open(p).read().split('\n') if re.match(r'\s*const\s+int32_t\s+\w+_TYPE_UID\s*=\s*\d+\s*;', ln)]
    if len(out) < 5:
        raise ExtractionError('type tags not found')
    return '\n'.join('static ' + ln.strip() for ln in out) + '\n'


def extract_many(specs):
    """specs: list of dicts {file, function, [alias], [sampler]} -> (text, manifest)"""
    texts = []
    man = []
    for s in specs:
        cls = SamplerExtractor if s.get('sampler') else FunctionExtractor
        fx = cls(s['file'], s['function'], s.get('alias'), s.get('decl_file'))
        r = fx.extract()
        texts.append(r.pop('text'))
        man.append(r)
    return '\n'.join(texts), man


if __name__ == '__main__':
    import argparse
    ap = argparse.ArgumentParser()
    ap.add_argument('items', nargs='+', help='file.cpp:function[:sampler]')
    a = ap.parse_args()
    specs = []
    for it in a.items:
        parts = it.split(':')
        f = parts[0]
        fn = parts[1]
        if len(parts) > 2 and parts[2] == '':
            # Class::Class form
            fn = parts[1] + '::' + parts[3]
            parts = [f, fn] + parts[4:]
        specs.append({'file': f, 'function': fn, 'sampler': 'sampler' in parts[2:]})
    try:
        t, m = extract_many(specs)
    except ExtractionError as e:
        print('EXTRACTION-ERROR:', e, file=sys.stderr)
        sys.exit(2)
    print(t)
    print(json.dumps(m, indent=1), file=sys.stderr)
