"""Driver core: group pipeline (extract -> goto-cc -> goto-instrument --dfcc -> cbmc), result
parsing, verdicts, evidence.  See DESIGN.md section 2.4."""
import concurrent.futures as cf
import hashlib
import json
import os
import re
import resource
import shutil
import subprocess
import sys
import time

sys.path.insert(0, os.path.dirname(os.path.abspath(__file__)))
import extract as X  # noqa: E402

VERIF = os.path.dirname(os.path.dirname(os.path.abspath(__file__)))
REPO = X.REPO
BUILD = os.path.join(VERIF, 'build')
RUNDIR = os.path.join(BUILD, 'run_%d' % os.getpid())     # scratch of this check process (several checks may run side by side)
CBMC_BASE = ['--no-signed-overflow-check', '--no-malloc-may-fail', '--pointer-primitive-check', '--drop-unused-functions']
MEM_BYTES = 12 << 30
CANARY = 'VERIF_REACH_CANARY'


class Group:
    """One obligation group = one goto binary = one cbmc run."""

    def __init__(self, name, harness, entry, extract=(), enforce=None, replace=(), loops=False,
                 defines=None, cbmc=(), timeout=2400, unwind=None, tags=(), instance=None,
                 thorough_only=False, bounded=False, replay=None, nondet_static=False, note='', backend=None, gen=None, enforce_rec=False):
        self.name = name
        self.harness = harness
        self.entry = entry
        self.extract = list(extract)
        self.enforce = enforce
        self.replace = list(replace)
        self.loops = loops
        self.defines = dict(defines or {})
        self.cbmc = list(cbmc)
        self.timeout = timeout
        self.unwind = unwind
        self.tags = set(tags)
        self.instance = instance
        self.thorough_only = thorough_only
        self.bounded = bounded      # bounded stand-in: never counted as proved
        self.replay = replay        # name of a native replay routine
        self.note = note
        self.enforce_rec = enforce_rec   # recursive function: --enforce-contract-rec
        self.gen = dict(gen or {})  # generated include files: name -> text (shape-dependent macro expansions)
        self.backend = backend      # None = SAT (minisat2); 'cvc5' | 'z3' = SMT2 back end


class StaticGroup(Group):
    """supporting static fact decided on the clang AST (not by CBMC): fn(self) -> list of (name, ok, description)"""

    def __init__(self, name, fn, note=''):
        Group.__init__(self, name, harness='', entry='', note=note)
        self.fn = fn

    def run_static(self):
        res = GroupResult(self)
        t0 = time.time()
        try:
            for (nm, ok, desc) in self.fn(self):
                res.obligations.append({'name': nm, 'status': 'SUCCESS' if ok else 'FAILURE', 'desc': desc, 'file': '', 'line': '',
                                        'function': '', 'cls': 'static'})
        except X.ExtractionError as e:
            res.reason = 'extraction: %s' % e
            res.wall = time.time() - t0
            return res
        res.failed = [o for o in res.obligations if o['status'] != 'SUCCESS']
        res.status = 'FAILED' if res.failed else ('PROVED' if res.obligations else 'UNDECIDED')
        res.cmds = ['clang++ -Xclang -ast-dump=json (reference scan)']
        res.wall = time.time() - t0
        return res


DFCC_MIN_UNWIND = int(os.environ.get('VERIF_DFCC_MIN_UNWIND', '6'))


def _limits():
    resource.setrlimit(resource.RLIMIT_AS, (MEM_BYTES, MEM_BYTES))


def _run(cmd, timeout, cwd=None):
    """run a tool in its own process group; on timeout the whole group is killed (cbmc leaves its SMT solver child running otherwise)"""
    import signal
    t0 = time.time()
    p = subprocess.Popen(cmd, stdout=subprocess.PIPE, stderr=subprocess.PIPE, text=True, cwd=cwd, preexec_fn=_limits, start_new_session=True)
    try:
        out, err = p.communicate(timeout=timeout)
        return p.returncode, out, err, time.time() - t0, False
    except subprocess.TimeoutExpired:
        try:
            os.killpg(p.pid, signal.SIGKILL)
        except ProcessLookupError:
            pass
        try:
            out, err = p.communicate(timeout=10)
        except Exception:
            out, err = '', ''
        return -1, out or '', err or '', time.time() - t0, True


def spec_of(item):
    if isinstance(item, dict):
        return item
    f, fn = item[0], item[1]
    d = {'file': f, 'function': fn}
    for extra in item[2:]:
        if extra == 'sampler':
            d['sampler'] = True
        elif isinstance(extra, str) and extra.startswith('alias='):
            d['alias'] = extra[6:]
        elif extra == 'closure':
            d['closure'] = True
        elif isinstance(extra, str) and extra.startswith('skip='):
            d['skip'] = extra[5:].split(',')
        elif isinstance(extra, str) and extra.startswith('decl_file='):
            d['decl_file'] = extra[10:]
    return d


_extract_memo = {}


def extract_cached(spec):
    key = json.dumps(spec, sort_keys=True)
    if key not in _extract_memo and spec['function'].startswith('struct:'):
        _extract_memo[key] = X.extract_plain_struct(spec['file'], spec['function'][7:])
    if key not in _extract_memo:
        cls = X.SamplerExtractor if spec.get('sampler') else X.FunctionExtractor
        fx = cls(spec['file'], spec['function'], spec.get('alias'), spec.get('decl_file'))
        _extract_memo[key] = fx.extract()
    return _extract_memo[key]


def classify(name, desc):
    """obligation class from cbmc's property name"""
    parts = name.split('.')
    cls = parts[-2] if len(parts) >= 2 else name
    return cls


class GroupResult:
    def __init__(self, g):
        self.group = g
        self.status = 'UNDECIDED'   # PROVED | FAILED | UNDECIDED
        self.reason = ''
        self.obligations = []       # dicts name, status, desc, cls, file, line, function
        self.failed = []
        self.wall = 0.0
        self.solver_s = 0.0
        self.extraction = []
        self.cmds = []
        self.log = ''
        self.workdir = ''
        self.trace = None
        self.loop_mismatch = False

    def counts(self):
        obs = [o for o in self.obligations if CANARY not in o['desc']]
        return len(obs), sum(1 for o in obs if o['status'] == 'SUCCESS')


def parse_cbmc_json(out):
    try:
        data = json.loads(out)
    except Exception:
        # try to cut trailing garbage
        i = out.rfind(']')
        try:
            data = json.loads(out[:i + 1])
        except Exception:
            return None, None, [], ''
    results = None
    status = None
    msgs = []
    for el in data:
        if 'result' in el:
            results = el['result']
        if 'cProverStatus' in el:
            status = el['cProverStatus']
        if 'messageText' in el:
            msgs.append(el['messageText'])
    return results, status, msgs, data


def _load_shapes():
    p = os.path.join(VERIF, 'contracts', 'loop_shapes.json')
    try:
        return json.load(open(p))
    except Exception:
        return {}


# loop nesting shape (kind, depth in pre-order) of every function with loop contracts, recorded on the tree the contracts were
# written for (tools/loopshapes.py); a different shape means the loop contracts do not describe the code any more
LOOP_SHAPES = _load_shapes()


def contract_loop_macros(cname):
    """number of LOOP_<cname>_<k> macros defined in contracts/*.h"""
    ks = set()
    cdir = os.path.join(VERIF, 'contracts')
    for f in os.listdir(cdir):
        if f.endswith('.h'):
            for m in re.finditer(r'#define\s+LOOP_%s_(\d+)\b' % re.escape(cname), open(os.path.join(cdir, f)).read()):
                ks.add(int(m.group(1)))
    return len(ks)


def parse_cbmc_text(out):
    results = []
    msgs = []
    cur_file, cur_fn = '', ''
    saw_results = False
    for ln in out.split('\n'):
        m = re.match(r'^(\S.*) function (\S+)$', ln)
        if m and not ln.startswith('['):
            cur_file, cur_fn = m.group(1), m.group(2)
            continue
        m = re.match(r'^\[([^\]]+)\] (?:line (\d+) )?(.*): (SUCCESS|FAILURE|UNKNOWN|ERROR)$', ln)
        if m:
            saw_results = True
            results.append({'property': m.group(1), 'status': m.group(4), 'description': m.group(3),
                            'sourceLocation': {'file': cur_file, 'line': m.group(2) or '', 'function': cur_fn}})
            continue
        if ln.strip():
            msgs.append(ln)
    status = None
    if 'VERIFICATION SUCCESSFUL' in out:
        status = 'success'
    elif 'VERIFICATION FAILED' in out:
        status = 'failure'
    if not saw_results or status is None:
        return None, None, msgs[-30:]
    return results, status, msgs


def build_group(g, workdir):
    os.makedirs(workdir, exist_ok=True)
    man = []
    texts = []
    done = set()
    for it in g.extract:
        spec = spec_of(it)
        specs = [spec]
        if spec.get('closure'):
            # the function plus every helper defined in the same file that it transitively calls (robust to helper refactors)
            specs = [dict(spec, function=fn, closure=False) for fn in X.closure_order(spec['file'], spec['function'], skip=set(done) | set(spec.get('skip', [])))]
        for sp in specs:
            sp = {k: v for k, v in sp.items() if k not in ('closure', 'skip')}
            r = dict(extract_cached(sp))
            if r['c_name'] in done:
                continue
            done.add(r['c_name'])
            texts.append(r.pop('text'))
            man.append(r)
    with open(os.path.join(workdir, 'extracted.inc'), 'w') as f:
        f.write('/* generated on every run by tools/extract.py from %s -- do not edit */\n' % REPO)
        f.write('\n'.join(texts))
    for name, text in g.gen.items():
        with open(os.path.join(workdir, name), 'w') as f:
            f.write(text() if callable(text) else text)      # a callable is evaluated now, against the current tree (may raise ExtractionError)
    with open(os.path.join(workdir, 'template_macro.inc'), 'w') as f:
        f.write(X.extract_template_macro())
    with open(os.path.join(workdir, 'cxx_constants.inc'), 'w') as f:
        f.write(X.extract_cxx_constants())
    with open(os.path.join(workdir, 'uid_constants.inc'), 'w') as f:
        f.write(X.extract_uid_constants())
    return man


def run_group(g, trace=False, workroot=None):
    if hasattr(g, 'run_static'):
        return g.run_static()
    res = GroupResult(g)
    t0 = time.time()
    workdir = os.path.join(workroot or RUNDIR, re.sub(r'[^A-Za-z0-9_.=-]', '_', g.name))
    res.workdir = workdir
    try:
        if os.path.isdir(workdir):
            shutil.rmtree(workdir)
        res.extraction = build_group(g, workdir)
    except X.ExtractionError as e:
        res.reason = 'extraction: %s' % e
        res.loop_mismatch = True      # the code left the extractable subset: no proof; let the native oracle (if any) look for a failing input
        res.wall = time.time() - t0
        return res
    if g.loops:
        for e in res.extraction:
            want = contract_loop_macros(e['c_name'])
            shp = LOOP_SHAPES.get(e['c_name'])
            if want and (want != e['loops'] or (shp is not None and shp != e['loop_shape'])):
                # the loop structure of the function changed: the loop contracts no longer describe this code, so no obligation
                # generated from them says anything about the property.  Undecided -- unless the native input search on the real
                # code exhibits a violation (check.py), in which case that is reported.
                res.reason = 'loop structure of %s changed (%d loops, contracts describe %d): proof not applicable' % (e['c_name'], e['loops'], want)
                res.loop_mismatch = True
                res.wall = time.time() - t0
                return res
    a = os.path.join(workdir, 'a.gb')
    b = os.path.join(workdir, 'b.gb')
    defs = ['-D%s=%s' % (k, v) if v is not None else '-D%s' % k for k, v in sorted(g.defines.items())]
    cc = ['goto-cc', '-I' + os.path.join(REPO, 'src', 'include'), '-I' + os.path.join(VERIF, 'contracts'),
          '-I' + os.path.join(VERIF, 'harness'), '-I' + workdir, '-DVERIF', *defs,
          '--function', g.entry, os.path.join(VERIF, 'harness', g.harness), '-o', a]
    res.cmds.append(' '.join(cc))
    rc, out, err, dt, to = _run(cc, 300)
    if rc != 0:
        res.reason = 'goto-cc failed (the extracted text or a contract no longer compiles): ' + (err or out)[-1500:]
        res.log = err
        if g.loops:
            res.loop_mismatch = True     # pasted loop contracts do not fit the (changed) loops: let the native oracle decide
        res.wall = time.time() - t0
        return res
    binary = a
    if g.enforce or g.replace or g.loops:
        gi = ['goto-instrument', '--dfcc', g.entry]
        if g.enforce:
            gi += ['--enforce-contract-rec' if g.enforce_rec else '--enforce-contract', g.enforce]
        for r in g.replace:
            gi += ['--replace-call-with-contract', r]
        if g.loops:
            gi += ['--apply-loop-contracts']
        gi += [a, b]
        res.cmds.append(' '.join(gi))
        rc, out, err, dt, to = _run(gi, 600)
        if rc != 0:
            res.reason = 'goto-instrument failed: ' + (out + err)[-1500:]
            res.log = out + err
            res.wall = time.time() - t0
            return res
        binary = b
    cb = ['cbmc', *CBMC_BASE, *g.cbmc]
    if g.backend == 'cadical':
        cb += ['--sat-solver', 'cadical']
    elif g.backend == 'kissat':
        cb += ['--external-sat-solver', 'kissat']
    elif g.backend:
        cb += ['--' + g.backend]
    if g.unwind:
        u = g.unwind
        if g.enforce or g.replace or g.loops:
            # the DFCC instrumentation library has loops of its own (over write-set slots) that carry no unwinding assertion: a bound that
            # fits the program's own enumerated loops can silently cut them (seen at --unwind 3: harness end unreachable).  Never go below 6.
            u = max(u, DFCC_MIN_UNWIND)
        cb += ['--unwind', str(u)]
    if trace:
        cb += ['--trace', '--json-ui']     # counterexample wanted: JSON with traces (only in the re-run after a failure)
    cb += [binary]
    res.cmds.append(' '.join(cb))
    rc, out, err, dt, to = _run(cb, g.timeout)
    res.solver_s = dt
    res.wall = time.time() - t0
    if to:
        res.reason = 'cbmc timeout after %ds' % g.timeout
        return res
    if trace:
        results, status, msgs, data = parse_cbmc_json(out)
    else:
        # plain-text UI: the JSON UI always builds an error trace for the (intended) canary failure, which costs
        # minutes and gigabytes on proofs over large symbolic arrays
        results, status, msgs = parse_cbmc_text(out)
    res.log = '\n'.join(msgs)
    with open(os.path.join(workdir, 'cbmc.json' if trace else 'cbmc.out'), 'w') as f:
        f.write(out)
    if results is None:
        res.reason = 'cbmc produced no result (rc=%s): %s' % (rc, (res.log or err)[-1500:])
        return res
    if any('ignoring' in m for m in msgs):
        res.reason = 'cbmc ignored a construct: ' + '; '.join(m for m in msgs if 'ignoring' in m)[:500]
        return res
    canary_seen = False
    for r in results:
        sl = r.get('sourceLocation', {})
        o = {'name': r.get('property', ''), 'status': r.get('status', ''), 'desc': r.get('description', ''),
             'file': sl.get('file', ''), 'line': sl.get('line', ''), 'function': sl.get('function', '')}
        o['cls'] = classify(o['name'], o['desc'])
        if trace and 'trace' in r:
            o['trace'] = r['trace']
        if CANARY in o['desc']:
            if o['function'] == g.entry:
                canary_seen = True
            if o['status'] != 'FAILURE':
                res.reason = 'vacuity guard: the end of harness %s is unreachable (canary %s)' % (g.entry, o['status'])
                res.obligations.append(o)
                res.status = 'UNDECIDED'
                return res
        res.obligations.append(o)
    if not canary_seen:
        res.reason = 'vacuity guard: harness has no reachability canary'
        return res
    if g.loops:
        if not any('loop_invariant_step' in o['name'] or 'loop invariant' in o['desc'] for o in res.obligations):
            res.reason = 'loop contracts supplied but no loop-invariant obligation was generated'
            return res
    bad = [o for o in res.obligations if o['status'] != 'SUCCESS' and CANARY not in o['desc']]
    n, ok = res.counts()
    if n == 0:
        res.reason = 'no obligations generated'
        return res
    if bad:
        real = [o for o in bad if o['status'] == 'FAILURE']
        unw = [o for o in real if '.unwind.' in o['name'] or 'unwinding assertion' in o['desc']]
        if unw:
            others = [o for o in real if o not in unw]
            if others:
                # the bound only limits what was explored: an assertion that fails on an explored path is a real counterexample
                # (--unwinding-assertions cuts the paths beyond the bound, it does not invent any); the passes of this run prove nothing
                res.failed = others
                res.status = 'FAILED'
                res.reason = 'failed within the unwinding bound (the bound itself was too small: %s)' % unw[0]['name']
                return res
            res.failed = unw
            res.status = 'UNDECIDED'
            res.reason = 'unwinding bound too small: %s (%s)' % (unw[0]['name'], unw[0]['desc'])
            return res
        res.failed = real
        res.status = 'FAILED' if real else 'UNDECIDED'
        if not real:
            res.reason = 'obligation with status ' + bad[0]['status']
        return res
    res.status = 'PROVED'
    return res


def run_groups(groups, jobs=None, trace=False, workroot=None, progress=True):
    jobs = jobs or min(16, os.cpu_count() or 4)
    out = {}
    # extraction is done in the worker threads too (clang runs in subprocesses)
    with cf.ThreadPoolExecutor(max_workers=jobs) as ex:
        futs = {ex.submit(run_group, g, trace, workroot): g for g in groups}
        for fu in cf.as_completed(futs):
            g = futs[fu]
            try:
                r = fu.result()
            except Exception as e:  # driver bug: undecided, never a violation
                r = GroupResult(g)
                r.reason = 'driver exception: %r' % (e,)
            out[g.name] = r
            if progress:
                n, ok = r.counts()
                print('  [%-9s] %-60s %4d/%-4d obligations  %6.1fs %s' % (
                    r.status, g.name, ok, n, r.wall, ('-- ' + r.reason[:200]) if r.reason else ''), flush=True)
    return out


def trace_inputs(o):
    """collect the last value assigned to each variable whose name starts with in_ in a cbmc json trace"""
    vals = {}
    for st in o.get('trace', []) or []:
        if st.get('stepType') == 'assignment':
            lhs = st.get('lhs', '')
            if lhs.startswith('in_') or '::in_' in lhs:
                v = st.get('value', {})
                name = lhs.split('::')[-1]
                if 'data' in v:
                    vals[name] = v['data']
                elif 'name' in v:
                    vals[name] = json.dumps(v)[:200]
    return vals
