/* Loop contracts for the bootstrapping skeleton (lwe-bootstrapping-functions{,-fft}.cpp) -- C04, C09, C15, C16.
 * The callees are monitor shims that only write ghost state (harness/c04_bootstrap.c). */
#ifndef CONTRACTS_BOOT_H
#define CONTRACTS_BOOT_H
#define LENTRY(x) __CPROVER_loop_entry(x)
extern int32_t g_i, g_k;
extern int32_t g_calls_watched, g_last_i, g_bad;
extern TLweSample *g_cur, *g_temp;
extern int32_t g_wa_val; /* ghost: the rounding of the watched mask coefficient x->a[g_i] */

/* blind rotation ping-pong loop: temp2/temp3 are always {temp, accum}; temp3 holds the current accumulator;
 * index g_i is rotated exactly once when bara[g_i] != 0 and at most once (by X^0 = 1) when it is 0, in increasing index order */
#define BLIND_LOOP(i) \
    __CPROVER_assigns(i, temp2, temp3, g_bad, g_last_i, g_calls_watched, g_cur) \
    __CPROVER_loop_invariant(0 <= i && i <= n && g_bad == 0) \
    __CPROVER_loop_invariant(g_last_i < i) \
    __CPROVER_loop_invariant((temp2 == temp && temp3 == accum) || (temp2 == accum && temp3 == temp)) \
    __CPROVER_loop_invariant(g_cur == temp3) \
    __CPROVER_loop_invariant(i <= g_i ==> g_calls_watched == 0) \
    __CPROVER_loop_invariant(i > g_i ==> (g_calls_watched >= 0 && g_calls_watched <= 1 && (bara[g_i] != 0 ==> g_calls_watched == 1))) \
    __CPROVER_decreases(n - i)
#define LOOP_tfhe_blindRotate_FFT_0(i) BLIND_LOOP(i)
#define LOOP_tfhe_blindRotate_0(i) BLIND_LOOP(i)

/* bootstrap without key switch: loop 0 rounds the n mask coefficients into bara, loop 1 fills the test vector */
#define WOKS_LOOP0(i) \
    __CPROVER_assigns(i, __CPROVER_object_whole(bara)) \
    __CPROVER_loop_invariant(0 <= i && i <= n) \
    __CPROVER_loop_invariant((i) > g_i ==> bara[g_i] == g_wa_val) \
    __CPROVER_decreases(n - i)
#define WOKS_LOOP1(i) \
    __CPROVER_assigns(i, __CPROVER_object_whole(testvect->coefsT)) \
    __CPROVER_loop_invariant(0 <= i && i <= N) \
    __CPROVER_loop_invariant((i) > g_k ==> testvect->coefsT[g_k] == mu) \
    __CPROVER_decreases(N - i)
#define LOOP_tfhe_bootstrap_woKS_FFT_0(i) WOKS_LOOP0(i)
#define LOOP_tfhe_bootstrap_woKS_FFT_1(i) WOKS_LOOP1(i)
#define LOOP_tfhe_bootstrap_woKS_0(i) WOKS_LOOP0(i)
#define LOOP_tfhe_bootstrap_woKS_1(i) WOKS_LOOP1(i)
#endif
