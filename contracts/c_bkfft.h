/* Loop contracts of init_LweBootstrappingKeyFFT for the unbounded check (harness/c04_bootstrap.c, H_BKFFT_U) */
#ifndef CONTRACTS_BKFFT_H
#define CONTRACTS_BKFFT_H
#define LENTRY(x) __CPROVER_loop_entry(x)
extern int32_t u_bad, u_cpB, u_conv, u_convW, g_i, g_c; extern uint64_t u_hit;
#define LOOP_init_LweBootstrappingKeyFFT_0(i) \
    __CPROVER_assigns(i, u_bad, u_cpB, u_hit) \
    __CPROVER_loop_invariant(0 <= i && i <= N && u_bad == 0) \
    __CPROVER_loop_invariant(u_cpB == ((i) > g_i ? VERIF_T * (1 << VERIF_BASEBIT) : 0) && u_hit == ((i) > g_i ? BKF_MASK(VERIF_T, 0) : 0)) \
    __CPROVER_decreases(N - i)
#define LOOP_init_LweBootstrappingKeyFFT_1(j) \
    __CPROVER_assigns(j, u_bad, u_cpB, u_hit) \
    __CPROVER_loop_invariant(0 <= j && j <= t && u_bad == 0) \
    __CPROVER_loop_invariant(u_cpB == LENTRY(u_cpB) + ((i) == g_i ? (j) * (1 << VERIF_BASEBIT) : 0) && u_hit == ((i) == g_i ? BKF_MASK(j, 0) : LENTRY(u_hit))) \
    __CPROVER_decreases(t - j)
#define LOOP_init_LweBootstrappingKeyFFT_2(p) \
    __CPROVER_assigns(p, u_bad, u_cpB, u_hit) \
    __CPROVER_loop_invariant(0 <= p && p <= base && u_bad == 0) \
    __CPROVER_loop_invariant(u_cpB == LENTRY(u_cpB) + ((i) == g_i ? (p) : 0) && u_hit == ((i) == g_i ? BKF_MASK(j, p) : LENTRY(u_hit))) \
    __CPROVER_decreases(base - p)
#define LOOP_init_LweBootstrappingKeyFFT_3(i) \
    __CPROVER_assigns(i, u_bad, u_conv, u_convW) \
    __CPROVER_loop_invariant(0 <= i && i <= n && u_bad == 0 && u_conv == i && u_convW == ((i) > g_c ? 1 : 0)) \
    __CPROVER_decreases(n - i)
#endif
