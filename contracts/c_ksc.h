/* Loop contracts of lweCreateKeySwitchKey for the unbounded-in-n check (harness/c03_encrypt.c, H_KSCREATE_U) */
#ifndef CONTRACTS_KSC_H
#define CONTRACTS_KSC_H
#define LENTRY(x) __CPROVER_loop_entry(x)
/* lweCreateKeySwitchKey, unbounded in n (harness H_KSCREATE_U): VERIF_KS_T, VERIF_KS_BB constants; g_i watched index */
extern int32_t kc_bad, kc_trivB, kc_encB, kc_nd; extern uint64_t kc_hit;
#define KSC_PER_I (VERIF_KS_T * ((1 << VERIF_KS_BB) - 1))
#define LOOP_lweCreateKeySwitchKey_0(i) \
    __CPROVER_assigns(i, err, __CPROVER_object_whole(noise), kc_nd, kc_bad) \
    __CPROVER_loop_invariant(0 <= i && i <= sizeks && kc_bad == 0 && kc_nd == i) \
    __CPROVER_decreases(sizeks - i)
#define LOOP_lweCreateKeySwitchKey_1(i) \
    __CPROVER_assigns(i, __CPROVER_object_whole(noise)) \
    __CPROVER_loop_invariant(0 <= i && i <= sizeks) \
    __CPROVER_decreases(sizeks - i)
#define LOOP_lweCreateKeySwitchKey_2(i) \
    __CPROVER_assigns(i, index, kc_bad, kc_trivB, kc_encB, kc_hit) \
    __CPROVER_loop_invariant(0 <= i && i <= n && kc_bad == 0 && index == (i) * KSC_PER_I) \
    __CPROVER_loop_invariant(kc_trivB == ((i) > g_i ? VERIF_KS_T : 0) && kc_encB == ((i) > g_i ? KSC_PER_I : 0) && kc_hit == ((i) > g_i ? KSC_MASK(VERIF_KS_T, 1) : 0)) \
    __CPROVER_decreases(n - i)
#define LOOP_lweCreateKeySwitchKey_3(j) \
    __CPROVER_assigns(j, index, kc_bad, kc_trivB, kc_encB, kc_hit) \
    __CPROVER_loop_invariant(0 <= j && j <= t && kc_bad == 0 && index == ((i) * VERIF_KS_T + (j)) * ((1 << VERIF_KS_BB) - 1)) \
    __CPROVER_loop_invariant(kc_trivB == LENTRY(kc_trivB) + ((i) == g_i ? (j) : 0) && kc_encB == LENTRY(kc_encB) + ((i) == g_i ? (j) * ((1 << VERIF_KS_BB) - 1) : 0)) \
    __CPROVER_loop_invariant(kc_hit == ((i) == g_i ? KSC_MASK(j, 1) : LENTRY(kc_hit))) \
    __CPROVER_decreases(t - j)
#define LOOP_lweCreateKeySwitchKey_4(h) \
    __CPROVER_assigns(h, index, kc_bad, kc_encB, kc_hit) \
    __CPROVER_loop_invariant(1 <= h && h <= base && kc_bad == 0 && index == ((i) * VERIF_KS_T + (j)) * ((1 << VERIF_KS_BB) - 1) + (h) - 1) \
    __CPROVER_loop_invariant(kc_encB == LENTRY(kc_encB) + ((i) == g_i ? (h) - 1 : 0)) \
    __CPROVER_loop_invariant(kc_hit == ((i) == g_i ? KSC_MASK(j, h) : LENTRY(kc_hit))) \
    __CPROVER_decreases(base - h)
#endif
