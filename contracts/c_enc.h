/* Loop contracts for encryption / key generation (lwe-functions.cpp, tlwe-functions.cpp) -- C03, C07 */
#ifndef CONTRACTS_ENC_H
#define CONTRACTS_ENC_H
#define LENTRY(x) __CPROVER_loop_entry(x)
/* lweSymEncrypt / lweSymEncryptWithExternalNoise: one uniform draw per coordinate, written to a[i] */
#define ENC_LOOP(i) \
    __CPROVER_assigns(i, __CPROVER_object_whole(result->a), result->b, g_n_uniform_t32, g_rng_touched) \
    __CPROVER_loop_invariant(0 <= i && i <= key->params->n) \
    __CPROVER_loop_invariant(g_n_uniform_t32 == LENTRY(g_n_uniform_t32) + i) \
    __CPROVER_decreases(key->params->n - i)
#define LOOP_lweSymEncrypt_0(i) ENC_LOOP(i)
#define LOOP_lweSymEncryptWithExternalNoise_0(i) ENC_LOOP(i)
/* lweKeyGen: every key coefficient is a draw from {0,1} */
#define LOOP_lweKeyGen_0(i) \
    __CPROVER_assigns(i, __CPROVER_object_whole(result->key), g_n_uniform_int, g_rng_touched, g_ui_lo, g_ui_hi) \
    __CPROVER_loop_invariant(0 <= i && i <= result->params->n) \
    __CPROVER_loop_invariant(g_n_uniform_int == LENTRY(g_n_uniform_int) + i) \
    __CPROVER_loop_invariant((i) > g_k ==> (result->key[g_k] == 0 || result->key[g_k] == 1)) \
    __CPROVER_loop_invariant((i) > 0 ==> (g_ui_lo == distribution.lo && g_ui_hi == distribution.hi)) \
    __CPROVER_decreases(result->params->n - i)
extern int32_t g_k;
#endif
