/* Loop contracts for encryption / key generation (lwe-functions.cpp, tlwe-functions.cpp) -- C03, C07 */
#ifndef CONTRACTS_ENC_H
#define CONTRACTS_ENC_H
#define LENTRY(x) __CPROVER_loop_entry(x)
/* lweSymEncrypt / lweSymEncryptWithExternalNoise: one uniform draw per coordinate, written to a[i] */
#define ENC_LOOP(i) \
    __CPROVER_assigns(i, __CPROVER_object_whole(result->a), result->b, g_n_uniform_t32, g_rng_touched) \
    __CPROVER_loop_invariant(0 <= i && i <= key->params->n) \
    __CPROVER_loop_invariant(g_n_uniform_t32 == LENTRY(g_n_uniform_t32) + i) \
    __CPROVER_decreases(key->params->n - i)
#define LOOP_lweSymEncrypt_0(i) ENC_LOOP(i)
#define LOOP_lweSymEncryptWithExternalNoise_0(i) ENC_LOOP(i)
/* lweKeyGen: every key coefficient is a draw from {0,1} */
#define LOOP_lweKeyGen_0(i) \
    __CPROVER_assigns(i, __CPROVER_object_whole(result->key), g_n_uniform_int, g_rng_touched, g_ui_lo, g_ui_hi) \
    __CPROVER_loop_invariant(0 <= i && i <= result->params->n) \
    __CPROVER_loop_invariant(g_n_uniform_int == LENTRY(g_n_uniform_int) + i) \
    __CPROVER_loop_invariant((i) > g_k ==> (result->key[g_k] == 0 || result->key[g_k] == 1)) \
    __CPROVER_loop_invariant((i) > 0 ==> (g_ui_lo == distribution.lo && g_ui_hi == distribution.hi)) \
    __CPROVER_decreases(result->params->n - i)
extern int32_t g_k;
/* tfhe_createLweBootstrappingKey: loop over the n key bits (monitor tGswSymEncryptInt counts, checks order and arguments) */
#define LOOP_tfhe_createLweBootstrappingKey_0(i) \
    __CPROVER_assigns(i, n_enc, n_enc_watched, bad, last_idx) \
    __CPROVER_loop_invariant(0 <= i && i <= n && bad == 0 && n_enc == i && last_idx == i - 1) \
    __CPROVER_loop_invariant(n_enc_watched == ((i) > g_i ? 1 : 0)) \
    __CPROVER_decreases(n - i)
/* tLweSymEncryptZero: N gaussian coefficients, then k (uniform, multiply-accumulate) pairs */
#define LOOP_tLweSymEncryptZero_0(j) \
    __CPROVER_assigns(j, __CPROVER_object_whole(result->b->coefsT), n_g, bad) \
    __CPROVER_loop_invariant(0 <= j && j <= N && bad == 0 && n_g == j) \
    __CPROVER_decreases(N - j)
#define LOOP_tLweSymEncryptZero_1(i) \
    __CPROVER_assigns(i, n_u, n_m, bad) \
    __CPROVER_loop_invariant(0 <= i && i <= k && bad == 0 && n_u == i && n_m == i) \
    __CPROVER_decreases(k - i)
/* tLweSymEncrypt: b += message, coefficient-wise */
#define LOOP_tLweSymEncrypt_0(j) \
    __CPROVER_assigns(j, __CPROVER_object_whole(result->b->coefsT)) \
    __CPROVER_loop_invariant(0 <= j && j <= N) \
    __CPROVER_loop_invariant(result->b->coefsT[g_k] == ((j) > g_k ? (Torus32)((uint32_t)LENTRY(result->b->coefsT[g_k]) + (uint32_t)message->coefsT[g_k]) : LENTRY(result->b->coefsT[g_k]))) \
    __CPROVER_decreases(N - j)
/* tLwePhase: k multiply-subtracts (monitor counts and checks operands) */
#define LOOP_tLwePhase_0(i) \
    __CPROVER_assigns(i, n_sub, bad) \
    __CPROVER_loop_invariant(0 <= i && i <= k && bad == 0 && n_sub == i) \
    __CPROVER_decreases(k - i)
/* tLweApproxPhase: coefficient-wise rounding (approxPhase is a one-point uninterpreted function on the watched coefficient) */
#define LOOP_tLweApproxPhase_0(i) \
    __CPROVER_assigns(i, __CPROVER_object_whole(message->coefsT), n_ap, ap_bad) \
    __CPROVER_loop_invariant(0 <= i && i <= N && ap_bad == 0) \
    __CPROVER_loop_invariant((i) > g_k ==> message->coefsT[g_k] == w_out) \
    __CPROVER_decreases(N - i)
/* tGswEncryptZero: loop over the kpl rows */
#define LOOP_tGswEncryptZero_0(p) \
    __CPROVER_assigns(p, n_calls, n_watched, bad, last) \
    __CPROVER_loop_invariant(0 <= p && p <= kpl && bad == 0 && n_calls == p && last == p - 1) \
    __CPROVER_loop_invariant(n_watched == ((p) > g_i ? 1 : 0)) \
    __CPROVER_decreases(kpl - p)
/* tLweKeyGen: k polynomials of N coefficients, one draw from {0,1} each (k = VERIF_K enumerated, N symbolic) */
extern int32_t g_i;
#define LOOP_tLweKeyGen_0(i) \
    __CPROVER_assigns(i, __CPROVER_object_whole(result->key[0].coefs), TLWEKG_MORE g_n_uniform_int, g_rng_touched, g_ui_lo, g_ui_hi) \
    __CPROVER_loop_invariant(0 <= i && i <= k) \
    __CPROVER_loop_invariant(g_n_uniform_int == LENTRY(g_n_uniform_int) + (i) * N) \
    __CPROVER_loop_invariant((i) > g_i ==> (result->key[g_i].coefs[g_k] == 0 || result->key[g_i].coefs[g_k] == 1)) \
    __CPROVER_loop_invariant((i) > 0 ==> (g_ui_lo == distribution.lo && g_ui_hi == distribution.hi)) \
    __CPROVER_decreases(k - i)
#define LOOP_tLweKeyGen_1(j) \
    __CPROVER_assigns(j, __CPROVER_object_whole(result->key[i].coefs), g_n_uniform_int, g_rng_touched, g_ui_lo, g_ui_hi) \
    __CPROVER_loop_invariant(0 <= j && j <= N) \
    __CPROVER_loop_invariant(g_n_uniform_int == LENTRY(g_n_uniform_int) + j) \
    __CPROVER_loop_invariant(((i) == g_i && (j) > g_k) ==> (result->key[g_i].coefs[g_k] == 0 || result->key[g_i].coefs[g_k] == 1)) \
    __CPROVER_loop_invariant(((i) > 0 || (j) > 0) ==> (g_ui_lo == distribution.lo && g_ui_hi == distribution.hi)) \
    __CPROVER_decreases(N - j)
#if VERIF_K >= 3
#define TLWEKG_MORE __CPROVER_object_whole(result->key[1].coefs), __CPROVER_object_whole(result->key[2].coefs),
#elif VERIF_K == 2
#define TLWEKG_MORE __CPROVER_object_whole(result->key[1].coefs),
#else
#define TLWEKG_MORE
#endif
/* tGswSymDecrypt: l phase / multiply-accumulate pairs; a debug loop of assertions; N roundings */
extern int32_t n_phase, n_mul, n_ms, bad, g_wout; extern Torus32 g_seen_phase;
#define LOOP_tGswSymDecrypt_0(i) \
    __CPROVER_assigns(i, n_phase, n_mul, bad) \
    __CPROVER_loop_invariant(0 <= i && i <= l && bad == 0 && n_phase == i && n_mul == i) \
    __CPROVER_decreases(l - i)
#define LOOP_tGswSymDecrypt_1(j) \
    __CPROVER_assigns(j) \
    __CPROVER_loop_invariant(1 <= j && (j <= N || j == 1)) \
    __CPROVER_decreases(N - j)
#define LOOP_tGswSymDecrypt_2(i) \
    __CPROVER_assigns(i, __CPROVER_object_whole(result->coefs), n_ms, bad, g_seen_phase) \
    __CPROVER_loop_invariant(0 <= i && i <= N && bad == 0 && n_ms == i) \
    __CPROVER_loop_invariant((i) > g_k ==> (result->coefs[g_k] == g_wout && g_seen_phase == testvec->coefsT[g_k])) \
    __CPROVER_decreases(N - i)
/* torusPolynomialUniform: N uniform draws, one per coefficient */
#define LOOP_torusPolynomialUniform_0(i) \
    __CPROVER_assigns(i, __CPROVER_object_whole(result->coefsT), g_n_uniform_t32, g_rng_touched) \
    __CPROVER_loop_invariant(0 <= i && i <= N && g_n_uniform_t32 == LENTRY(g_n_uniform_t32) + i) \
    __CPROVER_decreases(N - i)
#endif
