/* Loop contracts for tGswAddMuH (tgsw-functions.cpp): result += message(X) * H, message a polynomial -- C09 / C03.
 * Shape (k, l) = (VERIF_K, VERIF_L) enumerated, N symbolic.  Watched coordinate: row (g_b, g_i), polynomial g_q, coefficient g_j;
 * g_w0 = its value on entry, g_prod = message[g_j] * h[g_i] (both set by the harness).  rows2.inc provides ROWS2_COMMA(M) over all (k+1)l rows. */
#ifndef CONTRACTS_GADGET_H
#define CONTRACTS_GADGET_H
#include "rows2.inc"
extern int32_t g_b, g_i, g_q, g_j; extern uint32_t g_w0, g_prod;
#define ADDMU_FRAME(r) __CPROVER_object_whole(result->bloc_sample[(r) / VERIF_L][(r) % VERIF_L].a[(r) / VERIF_L].coefsT)
#define ADDMU_W (result->bloc_sample[g_b][g_i].a[g_q].coefsT[g_j])
#define ADDMU_DONE(c) ((uint32_t)ADDMU_W == g_w0 + (((c) && g_q == g_b) ? g_prod : 0u))
#define LOOP_tGswAddMuH_0(bloc) \
    __CPROVER_assigns(bloc, ROWS2_COMMA(ADDMU_FRAME)) \
    __CPROVER_loop_invariant(0 <= bloc && bloc <= k + 1) \
    __CPROVER_loop_invariant(ADDMU_DONE(bloc > g_b)) \
    __CPROVER_decreases(k + 1 - bloc)
#define LOOP_tGswAddMuH_1(i) \
    __CPROVER_assigns(i, ROWS2_COMMA(ADDMU_FRAME)) \
    __CPROVER_loop_invariant(0 <= i && i <= l) \
    __CPROVER_loop_invariant(ADDMU_DONE(bloc > g_b || (bloc == g_b && i > g_i))) \
    __CPROVER_decreases(l - i)
#define LOOP_tGswAddMuH_2(j) \
    __CPROVER_assigns(j, __CPROVER_object_whole(target)) \
    __CPROVER_loop_invariant(0 <= j && j <= N) \
    __CPROVER_loop_invariant(ADDMU_DONE(bloc > g_b || (bloc == g_b && (i > g_i || (i == g_i && j > g_j))))) \
    __CPROVER_decreases(N - j)
#endif
