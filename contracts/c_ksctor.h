/* Loop contracts of the LweKeySwitchKey constructor for the unbounded-in-n check (harness/c08_keyswitch.c, H_KSCTOR_U) */
#ifndef CONTRACTS_KSCTOR_H
#define CONTRACTS_KSCTOR_H
extern int32_t g_p1, g_i;
#define LOOP_LweKeySwitchKey__ctor_0(p) \
    __CPROVER_assigns(p, __CPROVER_object_whole(self->ks1_raw)) \
    __CPROVER_loop_invariant(0 <= p && p <= n * t) \
    __CPROVER_loop_invariant((p) > g_p1 ==> self->ks1_raw[g_p1] == ks0_raw + self->base * g_p1) \
    __CPROVER_decreases(n * t - p)
#define LOOP_LweKeySwitchKey__ctor_1(p) \
    __CPROVER_assigns(p, __CPROVER_object_whole(self->ks)) \
    __CPROVER_loop_invariant(0 <= p && p <= n) \
    __CPROVER_loop_invariant((p) > g_i ==> self->ks[g_i] == self->ks1_raw + t * g_i) \
    __CPROVER_decreases(n - p)
#endif
