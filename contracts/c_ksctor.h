/* Loop contracts of the LweKeySwitchKey constructor for the unbounded-in-n check (harness/c08_keyswitch.c, H_KSCTOR_U).
 * Pointer facts are stated as (same object, byte offset) pairs: pointer == pointer inside a loop invariant is not reliably carried by CBMC 6.11. */
#ifndef CONTRACTS_KSCTOR_H
#define CONTRACTS_KSCTOR_H
extern int32_t g_p1, g_i;
#define KSCTOR_ROW_OK (__CPROVER_same_object(self->ks1_raw[g_p1], ks0_raw) && __CPROVER_POINTER_OFFSET(self->ks1_raw[g_p1]) == __CPROVER_POINTER_OFFSET(ks0_raw) + (__CPROVER_size_t)(self->base * g_p1) * sizeof(LweSample))
#define KSCTOR_TOP_OK (__CPROVER_same_object(self->ks[g_i], self->ks1_raw) && __CPROVER_POINTER_OFFSET(self->ks[g_i]) == __CPROVER_POINTER_OFFSET(self->ks1_raw) + (__CPROVER_size_t)(t * g_i) * sizeof(LweSample *))
#define LOOP_LweKeySwitchKey__ctor_0(p) \
    __CPROVER_assigns(p, __CPROVER_object_whole(self->ks1_raw)) \
    __CPROVER_loop_invariant(0 <= p && p <= n * t) \
    __CPROVER_loop_invariant((p) > g_p1 ==> KSCTOR_ROW_OK) \
    __CPROVER_decreases(n * t - p)
#define LOOP_LweKeySwitchKey__ctor_1(p) \
    __CPROVER_assigns(p, __CPROVER_object_whole(self->ks)) \
    __CPROVER_loop_invariant(0 <= p && p <= n) \
    __CPROVER_loop_invariant(KSCTOR_ROW_OK) \
    __CPROVER_loop_invariant((p) > g_i ==> KSCTOR_TOP_OK) \
    __CPROVER_decreases(n - p)
#endif
