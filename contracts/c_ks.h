/* Loop contracts of lweKeySwitchTranslate_fromArray for the unbounded-in-n check (harness/c08_keyswitch.c, H_TRANSLATE_U) */
#ifndef CONTRACTS_KS_H
#define CONTRACTS_KS_H
extern int32_t u_bad, u_cnt; extern Torus32 u_A;
#ifdef KS_WATCHED
/* watched-index variant (H_TRANSLATE_W): u_cntB counts the uses of the rows of index g_i */
extern int32_t u_cntB, g_i;
#define LOOP_lweKeySwitchTranslate_fromArray_0(i) \
    __CPROVER_assigns(i, u_bad, u_cnt, u_cntB) \
    __CPROVER_loop_invariant(0 <= i && i <= n && u_bad == 0) \
    __CPROVER_loop_invariant(u_cntB == ((i) > g_i ? TNZ_PREFIX(u_A, VERIF_T) : 0)) \
    __CPROVER_decreases(n - i)
#define LOOP_lweKeySwitchTranslate_fromArray_1(j) \
    __CPROVER_assigns(j, u_bad, u_cnt, u_cntB) \
    __CPROVER_loop_invariant(0 <= j && j <= t && u_bad == 0) \
    __CPROVER_loop_invariant(u_cntB == __CPROVER_loop_entry(u_cntB) + ((i) == g_i ? TNZ_PREFIX(u_A, j) : 0)) \
    __CPROVER_decreases(t - j)
#else
#define LOOP_lweKeySwitchTranslate_fromArray_0(i) \
    __CPROVER_assigns(i, u_bad, u_cnt) \
    __CPROVER_loop_invariant(0 <= i && i <= n && u_bad == 0) \
    __CPROVER_loop_invariant((int64_t)u_cnt == (int64_t)i * TNZ_PREFIX(u_A, VERIF_T)) \
    __CPROVER_decreases(n - i)
#define LOOP_lweKeySwitchTranslate_fromArray_1(j) \
    __CPROVER_assigns(j, u_bad, u_cnt) \
    __CPROVER_loop_invariant(0 <= j && j <= t && u_bad == 0) \
    __CPROVER_loop_invariant(u_cnt == __CPROVER_loop_entry(u_cnt) + TNZ_PREFIX(u_A, j)) \
    __CPROVER_decreases(t - j)
#endif
#endif
