/* Contracts for src/libtfhe/toruspolynomial-functions.cpp (C11, C14, C15, C16).
 * Ghost coefficient index g_k (havocked by the harness, 0 <= g_k < N) stands for every position.
 * Oracle for the monomial products: the ring Z[X]/(X^N+1): X^a * sum in[j] X^j = sum in[j] X^(j+a), X^N = -1,
 * X^(2N) = 1 -- written as a closed form in q = g - a, independently of the code's four-loop case split. */
#ifndef CONTRACTS_POLY_H
#define CONTRACTS_POLY_H
extern int32_t g_k;
#ifndef OLD
#define OLD(x) __CPROVER_old(x)
#define LENTRY(x) __CPROVER_loop_entry(x)
#endif
#ifdef VERIF_PCONST
#define PZ_INSTANCE(p) ((p) == (VERIF_PCONST))
#else
#define PZ_INSTANCE(p) 1
#endif

#define N_OK(N_) ((N_) >= 1 && (N_) <= VERIF_NMAX)
#define TPOLY_OK(p_, N_) (__CPROVER_is_fresh(p_, sizeof(TorusPolynomial)) && (p_)->N == (N_) && __CPROVER_is_fresh((p_)->coefsT, (size_t)(N_) * sizeof(Torus32)))
#define IPOLY_OK(p_, N_) (__CPROVER_is_fresh(p_, sizeof(IntPolynomial)) && (p_)->N == (N_) && __CPROVER_is_fresh((p_)->coefs, (size_t)(N_) * sizeof(int32_t)))
#define GK_OK(N_) (0 <= g_k && g_k < (N_))
#define TP_FRAME(r) __CPROVER_assigns(__CPROVER_object_whole((r)->coefsT))
#define IP_FRAME(r) __CPROVER_assigns(__CPROVER_object_whole((r)->coefs))

/* coordinate-wise loop: the watched coefficient is final once i has passed it, untouched before */
#define CW_LOOP(i, N_, arr, done_val) \
    __CPROVER_assigns(i, __CPROVER_object_whole(arr)) \
    __CPROVER_loop_invariant(0 <= i && i <= (N_)) \
    __CPROVER_loop_invariant((arr)[g_k] == ((i) > g_k ? T32(done_val) : LENTRY((arr)[g_k]))) \
    __CPROVER_decreases((N_) - i)

extern int32_t g_N; /* ghost: the common degree of all operands (havocked by the harness) */

#define CONTRACT_torusPolynomialClear \
    __CPROVER_requires(N_OK(g_N) && TPOLY_OK(result, g_N) && GK_OK(g_N)) \
    TP_FRAME(result) \
    __CPROVER_ensures(result->coefsT[g_k] == 0)
#define LOOP_torusPolynomialClear_0(i) CW_LOOP(i, result->N, result->coefsT, 0)

#define CONTRACT_torusPolynomialCopy \
    __CPROVER_requires(N_OK(g_N) && TPOLY_OK(result, g_N) && TPOLY_OK(sample, g_N) && GK_OK(g_N)) \
    TP_FRAME(result) \
    __CPROVER_ensures(result->coefsT[g_k] == sample->coefsT[g_k])
#define LOOP_torusPolynomialCopy_0(i) CW_LOOP(i, result->N, result->coefsT, sample->coefsT[g_k])

#define CONTRACT_torusPolynomialAdd \
    __CPROVER_requires(N_OK(g_N) && TPOLY_OK(result, g_N) && TPOLY_OK(poly1, g_N) && TPOLY_OK(poly2, g_N) && GK_OK(g_N)) \
    TP_FRAME(result) \
    __CPROVER_ensures(result->coefsT[g_k] == T32(U32(poly1->coefsT[g_k]) + U32(poly2->coefsT[g_k])))
#define LOOP_torusPolynomialAdd_0(i) CW_LOOP(i, result->N, result->coefsT, U32(poly1->coefsT[g_k]) + U32(poly2->coefsT[g_k]))

#define CONTRACT_torusPolynomialAddTo \
    __CPROVER_requires(N_OK(g_N) && TPOLY_OK(result, g_N) && TPOLY_OK(poly2, g_N) && GK_OK(g_N)) \
    TP_FRAME(result) \
    __CPROVER_ensures(result->coefsT[g_k] == T32(U32(OLD(result->coefsT[g_k])) + U32(poly2->coefsT[g_k])))
#define LOOP_torusPolynomialAddTo_0(i) CW_LOOP(i, result->N, result->coefsT, U32(LENTRY(result->coefsT[g_k])) + U32(poly2->coefsT[g_k]))

#define CONTRACT_torusPolynomialSub \
    __CPROVER_requires(N_OK(g_N) && TPOLY_OK(result, g_N) && TPOLY_OK(poly1, g_N) && TPOLY_OK(poly2, g_N) && GK_OK(g_N)) \
    TP_FRAME(result) \
    __CPROVER_ensures(result->coefsT[g_k] == T32(U32(poly1->coefsT[g_k]) - U32(poly2->coefsT[g_k])))
#define LOOP_torusPolynomialSub_0(i) CW_LOOP(i, result->N, result->coefsT, U32(poly1->coefsT[g_k]) - U32(poly2->coefsT[g_k]))

#define CONTRACT_torusPolynomialSubTo \
    __CPROVER_requires(N_OK(g_N) && TPOLY_OK(result, g_N) && TPOLY_OK(poly2, g_N) && GK_OK(g_N)) \
    TP_FRAME(result) \
    __CPROVER_ensures(result->coefsT[g_k] == T32(U32(OLD(result->coefsT[g_k])) - U32(poly2->coefsT[g_k])))
#define LOOP_torusPolynomialSubTo_0(i) CW_LOOP(i, result->N, result->coefsT, U32(LENTRY(result->coefsT[g_k])) - U32(poly2->coefsT[g_k]))

/* scalar multiply-add family: p is any int32 (INT32_MIN included), arithmetic modulo 2^32 */
#define CONTRACT_torusPolynomialAddMulZ \
    __CPROVER_requires(N_OK(g_N) && TPOLY_OK(result, g_N) && TPOLY_OK(poly1, g_N) && TPOLY_OK(poly2, g_N) && GK_OK(g_N) && PZ_INSTANCE(p)) \
    TP_FRAME(result) \
    __CPROVER_ensures(result->coefsT[g_k] == (Torus32)(poly1->coefsT[g_k] + p * poly2->coefsT[g_k]))
#define LOOP_torusPolynomialAddMulZ_0(i) CW_LOOP(i, result->N, result->coefsT, poly1->coefsT[g_k] + p * poly2->coefsT[g_k])

#define CONTRACT_torusPolynomialAddMulZTo \
    __CPROVER_requires(N_OK(g_N) && TPOLY_OK(result, g_N) && TPOLY_OK(poly2, g_N) && GK_OK(g_N) && PZ_INSTANCE(p)) \
    TP_FRAME(result) \
    __CPROVER_ensures(result->coefsT[g_k] == (Torus32)(OLD(result->coefsT[g_k]) + p * poly2->coefsT[g_k]))
#define LOOP_torusPolynomialAddMulZTo_0(i) CW_LOOP(i, result->N, result->coefsT, LENTRY(result->coefsT[g_k]) + p * poly2->coefsT[g_k])

#define CONTRACT_torusPolynomialSubMulZ \
    __CPROVER_requires(N_OK(g_N) && TPOLY_OK(result, g_N) && TPOLY_OK(poly1, g_N) && TPOLY_OK(poly2, g_N) && GK_OK(g_N) && PZ_INSTANCE(p)) \
    TP_FRAME(result) \
    __CPROVER_ensures(result->coefsT[g_k] == (Torus32)(poly1->coefsT[g_k] - p * poly2->coefsT[g_k]))
#define LOOP_torusPolynomialSubMulZ_0(i) CW_LOOP(i, result->N, result->coefsT, poly1->coefsT[g_k] - p * poly2->coefsT[g_k])

#define CONTRACT_torusPolynomialSubMulZTo \
    __CPROVER_requires(N_OK(g_N) && TPOLY_OK(result, g_N) && TPOLY_OK(poly2, g_N) && GK_OK(g_N) && PZ_INSTANCE(p)) \
    TP_FRAME(result) \
    __CPROVER_ensures(result->coefsT[g_k] == (Torus32)(OLD(result->coefsT[g_k]) - p * poly2->coefsT[g_k]))
#define LOOP_torusPolynomialSubMulZTo_0(i) CW_LOOP(i, result->N, result->coefsT, LENTRY(result->coefsT[g_k]) - p * poly2->coefsT[g_k])

/* ---- monomial products.  XAI(in,N,a,g): coefficient g of X^a * in, for a in [0,2N), g in [0,N) */
#define XAI_Q(a, g) ((int64_t)(g) - (int64_t)(a))
#define XAI(in, N_, a, g) \
    (XAI_Q(a, g) >= 0 ? U32((in)[XAI_Q(a, g)]) \
     : XAI_Q(a, g) >= -(int64_t)(N_) ? 0u - U32((in)[XAI_Q(a, g) + (N_)]) \
     : U32((in)[XAI_Q(a, g) + 2 * (int64_t)(N_)]))
#define XAI_M1(in, N_, a, g) (XAI(in, N_, a, g) - U32((in)[g]))

#define MONO_LOOP(i, lo, hi, arr, spec) \
    __CPROVER_assigns(i, __CPROVER_object_whole(arr)) \
    __CPROVER_loop_invariant((lo) <= i && i <= (hi)) \
    __CPROVER_loop_invariant((arr)[g_k] == ((g_k) < i ? T32(spec) : LENTRY((arr)[g_k]))) \
    __CPROVER_decreases((hi) - i)

#define CONTRACT_torusPolynomialMulByXai \
    __CPROVER_requires(N_OK(g_N) && TPOLY_OK(result, g_N) && TPOLY_OK(source, g_N) && GK_OK(g_N) && a >= 0 && a < 2 * g_N) \
    TP_FRAME(result) \
    __CPROVER_ensures(result->coefsT[g_k] == T32(XAI(source->coefsT, g_N, a, g_k)))
#define LOOP_torusPolynomialMulByXai_0(i) MONO_LOOP(i, 0, a, result->coefsT, XAI(source->coefsT, source->N, a, g_k))
#define LOOP_torusPolynomialMulByXai_1(i) MONO_LOOP(i, a, source->N, result->coefsT, XAI(source->coefsT, source->N, a, g_k))
#define LOOP_torusPolynomialMulByXai_2(i) MONO_LOOP(i, 0, a - source->N, result->coefsT, XAI(source->coefsT, source->N, a, g_k))
#define LOOP_torusPolynomialMulByXai_3(i) MONO_LOOP(i, a - source->N, source->N, result->coefsT, XAI(source->coefsT, source->N, a, g_k))

#define CONTRACT_torusPolynomialMulByXaiMinusOne \
    __CPROVER_requires(N_OK(g_N) && TPOLY_OK(result, g_N) && TPOLY_OK(source, g_N) && GK_OK(g_N) && a >= 0 && a < 2 * g_N) \
    TP_FRAME(result) \
    __CPROVER_ensures(result->coefsT[g_k] == T32(XAI_M1(source->coefsT, g_N, a, g_k)))
#define LOOP_torusPolynomialMulByXaiMinusOne_0(i) MONO_LOOP(i, 0, a, result->coefsT, XAI_M1(source->coefsT, source->N, a, g_k))
#define LOOP_torusPolynomialMulByXaiMinusOne_1(i) MONO_LOOP(i, a, source->N, result->coefsT, XAI_M1(source->coefsT, source->N, a, g_k))
#define LOOP_torusPolynomialMulByXaiMinusOne_2(i) MONO_LOOP(i, 0, a - source->N, result->coefsT, XAI_M1(source->coefsT, source->N, a, g_k))
#define LOOP_torusPolynomialMulByXaiMinusOne_3(i) MONO_LOOP(i, a - source->N, source->N, result->coefsT, XAI_M1(source->coefsT, source->N, a, g_k))

#define CONTRACT_intPolynomialMulByXaiMinusOne \
    __CPROVER_requires(N_OK(g_N) && IPOLY_OK(result, g_N) && IPOLY_OK(source, g_N) && GK_OK(g_N) && ai >= 0 && ai < 2 * g_N) \
    IP_FRAME(result) \
    __CPROVER_ensures(result->coefs[g_k] == T32(XAI_M1(source->coefs, g_N, ai, g_k)))
#define LOOP_intPolynomialMulByXaiMinusOne_0(i) MONO_LOOP(i, 0, ai, result->coefs, XAI_M1(source->coefs, source->N, ai, g_k))
#define LOOP_intPolynomialMulByXaiMinusOne_1(i) MONO_LOOP(i, ai, source->N, result->coefs, XAI_M1(source->coefs, source->N, ai, g_k))
#define LOOP_intPolynomialMulByXaiMinusOne_2(i) MONO_LOOP(i, 0, ai - source->N, result->coefs, XAI_M1(source->coefs, source->N, ai, g_k))
#define LOOP_intPolynomialMulByXaiMinusOne_3(i) MONO_LOOP(i, ai - source->N, source->N, result->coefs, XAI_M1(source->coefs, source->N, ai, g_k))

#define CONTRACT_intPolynomialClear \
    __CPROVER_requires(N_OK(g_N) && IPOLY_OK(poly, g_N) && GK_OK(g_N)) \
    IP_FRAME(poly) \
    __CPROVER_ensures(poly->coefs[g_k] == 0)
#define LOOP_intPolynomialClear_0(i) CW_LOOP(i, poly->N, poly->coefs, 0)

#define CONTRACT_intPolynomialCopy \
    __CPROVER_requires(N_OK(g_N) && IPOLY_OK(result, g_N) && IPOLY_OK(source, g_N) && GK_OK(g_N)) \
    IP_FRAME(result) \
    __CPROVER_ensures(result->coefs[g_k] == source->coefs[g_k])
#define LOOP_intPolynomialCopy_0(i) CW_LOOP(i, source->N, result->coefs, source->coefs[g_k])

#define CONTRACT_intPolynomialAddTo \
    __CPROVER_requires(N_OK(g_N) && IPOLY_OK(accum, g_N) && IPOLY_OK(source, g_N) && GK_OK(g_N)) \
    IP_FRAME(accum) \
    __CPROVER_ensures(accum->coefs[g_k] == T32(U32(OLD(accum->coefs[g_k])) + U32(source->coefs[g_k])))
#define LOOP_intPolynomialAddTo_0(i) CW_LOOP(i, source->N, accum->coefs, U32(LENTRY(accum->coefs[g_k])) + U32(source->coefs[g_k]))

#endif
