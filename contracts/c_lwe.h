/* Contracts for src/libtfhe/lwe-functions.cpp (C14, C15, C16; used by C01, C03, C08).
 * Ghost coordinate g_k stands for "an arbitrary mask coordinate": it is havocked by every harness and only
 * constrained to 0 <= g_k < n, so a postcondition about a[g_k] is the statement for every coordinate.
 * All arithmetic is stated in uint32_t, i.e. exactly modulo 2^32, as the property says. */
#ifndef CONTRACTS_LWE_H
#define CONTRACTS_LWE_H
extern int32_t g_k;
/* the watched coordinate; a harness that handles samples of two dimensions may select the ghost by dimension */
#ifndef LWE_GK
#define LWE_GK(params_) g_k
#endif

#define LWE_PARAMS_OK(p) (__CPROVER_is_fresh(p, sizeof(LweParams)) && (p)->n >= 1 && (p)->n <= VERIF_NMAX)
#define LWE_SAMPLE_OK(s, n_) (__CPROVER_is_fresh(s, sizeof(LweSample)) && __CPROVER_is_fresh((s)->a, (size_t)(n_) * sizeof(Torus32)))
#define LWE_GHOST_OK(n_) (0 <= GKP && GKP < (n_))
#define GKP LWE_GK(params)
#define VAR_OK(v) ((v) >= 0.0 && (v) <= 1e300)
#define LWE_FRAME(r) __CPROVER_assigns(__CPROVER_object_whole((r)->a), (r)->b, (r)->current_variance)
/* proof slicing knobs: one contract, discharged in two runs (SAT decides the IEEE variance clause, cvc5 the
 * 32-bit multiplier congruence of the coordinate clause; neither back end decides both within the time limit) */
#ifdef KNOB_NOCOORD
#define COORD_ENSURES(e)
#define COORD_INV(e)
#else
#define COORD_ENSURES(e) __CPROVER_ensures(e)
#define COORD_INV(e) __CPROVER_loop_invariant(e)
#endif
#ifdef KNOB_NOVAR
#define VAR_ENSURES(e)
#else
#define VAR_ENSURES(e) __CPROVER_ensures(e)
#endif
#define OLD(x) __CPROVER_old(x)
#define LENTRY(x) __CPROVER_loop_entry(x)

/* generic loop contract of a coordinate-wise loop writing r[i] = f(entry r[i], ...): the watched coordinate has
 * its final value once i has passed it and its entry value before */
#define LWE_LOOP(i, n_, arr, done_val) \
    __CPROVER_assigns(i, __CPROVER_object_whole(arr)) \
    __CPROVER_loop_invariant(0 <= i && i <= (n_)) \
    COORD_INV((arr)[GKP] == ((i) > GKP ? T32(done_val) : LENTRY((arr)[GKP]))) \
    __CPROVER_decreases((n_) - i)

/* ---- lweClear: result = (0,0) */
#define CONTRACT_lweClear \
    __CPROVER_requires(LWE_PARAMS_OK(params) && LWE_SAMPLE_OK(result, params->n) && LWE_GHOST_OK(params->n)) \
    LWE_FRAME(result) \
    __CPROVER_ensures(result->a[GKP] == 0 && result->b == 0 && result->current_variance == 0.0)
#define LOOP_lweClear_0(i) LWE_LOOP(i, params->n, result->a, 0)

/* In-place variants (KNOB_ALIAS): the same real body with result and sample the SAME object (bootsNOT(x,x), bootsCOPY(x,x)) */
#ifdef KNOB_ALIAS
#define LWE_SAMPLE2_OK(s, r, n_) __CPROVER_pointer_equals(s, r)
#else
#define LWE_SAMPLE2_OK(s, r, n_) LWE_SAMPLE_OK(s, n_)
#endif
/* ---- lweCopy: result = sample */
#define CONTRACT_lweCopy \
    __CPROVER_requires(LWE_PARAMS_OK(params) && LWE_SAMPLE_OK(result, params->n) && LWE_SAMPLE2_OK(sample, result, params->n) && LWE_GHOST_OK(params->n)) \
    __CPROVER_requires(VAR_OK(sample->current_variance)) \
    LWE_FRAME(result) \
    __CPROVER_ensures(result->a[GKP] == OLD(sample->a[GKP]) && result->b == OLD(sample->b) && result->current_variance == OLD(sample->current_variance))
#ifdef KNOB_ALIAS
#define LOOP_lweCopy_0(i) LWE_LOOP(i, params->n, result->a, LENTRY(result->a[GKP]))
#else
#define LOOP_lweCopy_0(i) LWE_LOOP(i, params->n, result->a, sample->a[GKP])
#endif

/* ---- lweNegate: result = -sample */
#define CONTRACT_lweNegate \
    __CPROVER_requires(LWE_PARAMS_OK(params) && LWE_SAMPLE_OK(result, params->n) && LWE_SAMPLE2_OK(sample, result, params->n) && LWE_GHOST_OK(params->n)) \
    __CPROVER_requires(VAR_OK(sample->current_variance)) \
    LWE_FRAME(result) \
    __CPROVER_ensures(result->a[GKP] == T32(0u - U32(OLD(sample->a[GKP]))) && result->b == T32(0u - U32(OLD(sample->b)))) \
    __CPROVER_ensures(result->current_variance == OLD(sample->current_variance))
#ifdef KNOB_ALIAS
#define LOOP_lweNegate_0(i) LWE_LOOP(i, params->n, result->a, 0u - U32(LENTRY(result->a[GKP])))
#else
#define LOOP_lweNegate_0(i) LWE_LOOP(i, params->n, result->a, 0u - U32(sample->a[GKP]))
#endif

/* ---- lweNoiselessTrivial: result = (0,mu) */
#define CONTRACT_lweNoiselessTrivial \
    __CPROVER_requires(LWE_PARAMS_OK(params) && LWE_SAMPLE_OK(result, params->n) && LWE_GHOST_OK(params->n)) \
    LWE_FRAME(result) \
    __CPROVER_ensures(result->a[GKP] == 0 && result->b == mu && result->current_variance == 0.0)
#define LOOP_lweNoiselessTrivial_0(i) LWE_LOOP(i, params->n, result->a, 0)

/* ---- lweAddTo: result += sample */
#define CONTRACT_lweAddTo \
    __CPROVER_requires(LWE_PARAMS_OK(params) && LWE_SAMPLE_OK(result, params->n) && LWE_SAMPLE_OK(sample, params->n) && LWE_GHOST_OK(params->n)) \
    __CPROVER_requires(VAR_OK(sample->current_variance) && VAR_OK(result->current_variance)) \
    LWE_FRAME(result) \
    __CPROVER_ensures(result->a[GKP] == T32(U32(OLD(result->a[GKP])) + U32(sample->a[GKP]))) \
    __CPROVER_ensures(result->b == T32(U32(OLD(result->b)) + U32(sample->b))) \
    __CPROVER_ensures(result->current_variance == OLD(result->current_variance) + sample->current_variance)
#define LOOP_lweAddTo_0(i) LWE_LOOP(i, params->n, result->a, U32(LENTRY(result->a[GKP])) + U32(sample->a[GKP]))

/* ---- lweSubTo: result -= sample (scalar branch; the AVX2 inline-assembly branch is not seen) */
#define CONTRACT_lweSubTo \
    __CPROVER_requires(LWE_PARAMS_OK(params) && LWE_SAMPLE_OK(result, params->n) && LWE_SAMPLE_OK(sample, params->n) && LWE_GHOST_OK(params->n)) \
    __CPROVER_requires(VAR_OK(sample->current_variance) && VAR_OK(result->current_variance)) \
    LWE_FRAME(result) \
    __CPROVER_ensures(result->a[GKP] == T32(U32(OLD(result->a[GKP])) - U32(sample->a[GKP]))) \
    __CPROVER_ensures(result->b == T32(U32(OLD(result->b)) - U32(sample->b))) \
    __CPROVER_ensures(result->current_variance == OLD(result->current_variance) + sample->current_variance)
#define LOOP_lweSubTo_0(i) LWE_LOOP(i, params->n, result->a, U32(LENTRY(result->a[GKP])) - U32(sample->a[GKP]))

/* ---- lweAddMulTo: result += p*sample ; variance annotation var1 + p^2*var2 for |p| < 2^15 */
#ifdef VERIF_PCONST
#define P_INSTANCE(p) ((p) == (VERIF_PCONST))
#else
#define P_INSTANCE(p) 1
#endif
#define P_SMALL(p) ((p) > -32768 && (p) < 32768)
#define CONTRACT_lweAddMulTo \
    __CPROVER_requires(LWE_PARAMS_OK(params) && LWE_SAMPLE_OK(result, params->n) && LWE_SAMPLE_OK(sample, params->n) && LWE_GHOST_OK(params->n)) \
    __CPROVER_requires(VAR_OK(sample->current_variance) && VAR_OK(result->current_variance) && P_INSTANCE(p)) \
    LWE_FRAME(result) \
    COORD_ENSURES(result->a[GKP] == (Torus32)(OLD(result->a[GKP]) + p * sample->a[GKP])) \
    COORD_ENSURES(result->b == (Torus32)(OLD(result->b) + p * sample->b)) \
    VAR_ENSURES(P_SMALL(p) ==> result->current_variance == OLD(result->current_variance) + (double)(p * p) * OLD(sample->current_variance))
#define LOOP_lweAddMulTo_0(i) LWE_LOOP(i, params->n, result->a, LENTRY(result->a[GKP]) + p * sample->a[GKP])

#define CONTRACT_lweSubMulTo \
    __CPROVER_requires(LWE_PARAMS_OK(params) && LWE_SAMPLE_OK(result, params->n) && LWE_SAMPLE_OK(sample, params->n) && LWE_GHOST_OK(params->n)) \
    __CPROVER_requires(VAR_OK(sample->current_variance) && VAR_OK(result->current_variance) && P_INSTANCE(p)) \
    LWE_FRAME(result) \
    COORD_ENSURES(result->a[GKP] == T32(U32(OLD(result->a[GKP])) - U32(p) * U32(sample->a[GKP]))) \
    COORD_ENSURES(result->b == T32(U32(OLD(result->b)) - U32(p) * U32(sample->b))) \
    VAR_ENSURES(P_SMALL(p) ==> result->current_variance == OLD(result->current_variance) + (double)(p * p) * OLD(sample->current_variance))
#define LOOP_lweSubMulTo_0(i) LWE_LOOP(i, params->n, result->a, U32(LENTRY(result->a[GKP])) - U32(p) * U32(sample->a[GKP]))

/* ---- lwePhase: b - sum a_i*s_i.  The sum has no closed form CBMC can carry through an invariant: this contract is the
 * safety + frame part (every n, unbounded); the functional statement is the bounded pairing check of C03. */
#define LWE_KEY_OK(k_, n_) (__CPROVER_is_fresh(k_, sizeof(LweKey)) && __CPROVER_is_fresh((k_)->params, sizeof(LweParams)) && (k_)->params->n == (n_) \
    && __CPROVER_is_fresh((k_)->key, (size_t)(n_) * sizeof(int32_t)))
extern int32_t g_n;
#define CONTRACT_lwePhase \
    __CPROVER_requires(g_n >= 1 && g_n <= VERIF_NMAX && LWE_KEY_OK(key, g_n) && LWE_SAMPLE_OK(sample, g_n)) \
    __CPROVER_assigns()
#define LOOP_lwePhase_0(i) \
    __CPROVER_assigns(i, axs) \
    __CPROVER_loop_invariant(0 <= i && i <= n) \
    __CPROVER_decreases(n - i)

#endif
