/* Contracts for src/libtfhe/tlwe-functions.cpp and lwe.cpp (C14, C15, C16; used by C04, C09, C12).
 * The mask count k is an enumerated shape parameter (VERIF_K in {1,2,3}); N is symbolic and unbounded.
 * Ghost (g_i, g_k): polynomial index in [0,k] and coefficient index in [0,N). */
#ifndef CONTRACTS_TLWE_H
#define CONTRACTS_TLWE_H
#include "c_poly.h"
#ifndef VERIF_K
#define VERIF_K 1
#endif
extern int32_t g_i;
#ifdef VERIF_GI
#define GI_OK() (g_i == (VERIF_GI))
#else
#define GI_OK() (0 <= g_i && g_i <= VERIF_K)
#endif

#define TLWE_PARAMS_OK(p_) (__CPROVER_is_fresh(p_, sizeof(TLweParams)) && (p_)->N == g_N && (p_)->k == VERIF_K && N_OK(g_N))
#define TL_POLY_I_OK(s, i) ((s)->a[i].N == g_N && __CPROVER_is_fresh((s)->a[i].coefsT, (size_t)(g_N) * sizeof(Torus32)))
#if VERIF_K == 1
#define TL_POLYS_OK(s) (TL_POLY_I_OK(s, 0) && TL_POLY_I_OK(s, 1))
#define TL_FRAME_POLYS(s) __CPROVER_object_whole((s)->a[0].coefsT), __CPROVER_object_whole((s)->a[1].coefsT)
#elif VERIF_K == 2
#define TL_POLYS_OK(s) (TL_POLY_I_OK(s, 0) && TL_POLY_I_OK(s, 1) && TL_POLY_I_OK(s, 2))
#define TL_FRAME_POLYS(s) __CPROVER_object_whole((s)->a[0].coefsT), __CPROVER_object_whole((s)->a[1].coefsT), __CPROVER_object_whole((s)->a[2].coefsT)
#elif VERIF_K == 3
#define TL_POLYS_OK(s) (TL_POLY_I_OK(s, 0) && TL_POLY_I_OK(s, 1) && TL_POLY_I_OK(s, 2) && TL_POLY_I_OK(s, 3))
#define TL_FRAME_POLYS(s) __CPROVER_object_whole((s)->a[0].coefsT), __CPROVER_object_whole((s)->a[1].coefsT), __CPROVER_object_whole((s)->a[2].coefsT), __CPROVER_object_whole((s)->a[3].coefsT)
#else
#error "VERIF_K must be 1, 2 or 3"
#endif
#define TLWE_SAMPLE_OK(s) (__CPROVER_is_fresh(s, sizeof(TLweSample)) && (s)->k == VERIF_K \
    && __CPROVER_is_fresh((s)->a, (size_t)(VERIF_K + 1) * sizeof(TorusPolynomial)) && __CPROVER_pointer_equals((s)->b, (s)->a + VERIF_K) && TL_POLYS_OK(s))
#define TL_GHOSTS_OK() (GI_OK() && GK_OK(g_N))
#define TL_COEF(s) ((s)->a[g_i].coefsT[g_k])
#define TL_FRAME(r) __CPROVER_assigns(TL_FRAME_POLYS(r), (r)->current_variance)
#define TL_FRAME_NOVAR(r) __CPROVER_assigns(TL_FRAME_POLYS(r))
#ifndef VAR_OK
#define VAR_OK(v) ((v) >= 0.0 && (v) <= 1e300)
#endif
#ifndef P_SMALL
#define P_SMALL(p) ((p) > -32768 && (p) < 32768)
#endif

/* loops over the k mask polynomials are unwound (k is an enumerated constant; unwinding assertions on) */

#define CONTRACT_tLweClear \
    __CPROVER_requires(TLWE_PARAMS_OK(params) && TLWE_SAMPLE_OK(result) && TL_GHOSTS_OK()) \
    TL_FRAME(result) \
    __CPROVER_ensures(TL_COEF(result) == 0 && result->current_variance == 0.0)

#define CONTRACT_tLweCopy \
    __CPROVER_requires(TLWE_PARAMS_OK(params) && TLWE_SAMPLE_OK(result) && TLWE_SAMPLE_OK(sample) && TL_GHOSTS_OK() && VAR_OK(sample->current_variance)) \
    TL_FRAME(result) \
    __CPROVER_ensures(TL_COEF(result) == TL_COEF(sample) && result->current_variance == sample->current_variance)
#define LOOP_tLweCopy_0(i) \
    __CPROVER_assigns(i, TL_FRAME_POLYS(result)) \
    __CPROVER_loop_invariant(0 <= i && i <= params->k + 1) \
    __CPROVER_loop_invariant(TL_COEF(result) == ((i) > g_i ? TL_COEF(sample) : LENTRY(TL_COEF(result)))) \
    __CPROVER_decreases(params->k + 1 - i)
#define LOOP_tLweCopy_1(j) \
    __CPROVER_assigns(j, __CPROVER_object_whole(result->a[i].coefsT)) \
    __CPROVER_loop_invariant(0 <= j && j <= params->N) \
    __CPROVER_loop_invariant(TL_COEF(result) == ((i == g_i && (j) > g_k) ? TL_COEF(sample) : LENTRY(TL_COEF(result)))) \
    __CPROVER_decreases(params->N - j)

#define CONTRACT_tLweNoiselessTrivial \
    __CPROVER_requires(TLWE_PARAMS_OK(params) && TLWE_SAMPLE_OK(result) && TPOLY_OK(mu, g_N) && TL_GHOSTS_OK()) \
    TL_FRAME(result) \
    __CPROVER_ensures(TL_COEF(result) == (g_i == VERIF_K ? mu->coefsT[g_k] : 0) && result->current_variance == 0.0)

#define CONTRACT_tLweNoiselessTrivialT \
    __CPROVER_requires(TLWE_PARAMS_OK(params) && TLWE_SAMPLE_OK(result) && TL_GHOSTS_OK()) \
    TL_FRAME(result) \
    __CPROVER_ensures(TL_COEF(result) == ((g_i == VERIF_K && g_k == 0) ? mu : 0) && result->current_variance == 0.0)

#define CONTRACT_tLweAddTo \
    __CPROVER_requires(TLWE_PARAMS_OK(params) && TLWE_SAMPLE_OK(result) && TLWE_SAMPLE_OK(sample) && TL_GHOSTS_OK()) \
    __CPROVER_requires(VAR_OK(sample->current_variance) && VAR_OK(result->current_variance)) \
    TL_FRAME(result) \
    __CPROVER_ensures(TL_COEF(result) == T32(U32(OLD(TL_COEF(result))) + U32(TL_COEF(sample)))) \
    __CPROVER_ensures(result->current_variance == OLD(result->current_variance) + sample->current_variance)

#define CONTRACT_tLweSubTo \
    __CPROVER_requires(TLWE_PARAMS_OK(params) && TLWE_SAMPLE_OK(result) && TLWE_SAMPLE_OK(sample) && TL_GHOSTS_OK()) \
    __CPROVER_requires(VAR_OK(sample->current_variance) && VAR_OK(result->current_variance)) \
    TL_FRAME(result) \
    __CPROVER_ensures(TL_COEF(result) == T32(U32(OLD(TL_COEF(result))) - U32(TL_COEF(sample)))) \
    __CPROVER_ensures(result->current_variance == OLD(result->current_variance) + sample->current_variance)

/* the IEEE product p*p*variance is not decidable under contracts by any installed back end (see DESIGN);
 * the coordinate clause is proved here, the variance clause by the bounded stand-in */
#define CONTRACT_tLweAddMulTo \
    __CPROVER_requires(TLWE_PARAMS_OK(params) && TLWE_SAMPLE_OK(result) && TLWE_SAMPLE_OK(sample) && TL_GHOSTS_OK() && PZ_INSTANCE(p)) \
    __CPROVER_requires(VAR_OK(sample->current_variance) && VAR_OK(result->current_variance)) \
    TL_FRAME(result) \
    __CPROVER_ensures(TL_COEF(result) == (Torus32)(OLD(TL_COEF(result)) + p * TL_COEF(sample)))

#define CONTRACT_tLweSubMulTo \
    __CPROVER_requires(TLWE_PARAMS_OK(params) && TLWE_SAMPLE_OK(result) && TLWE_SAMPLE_OK(sample) && TL_GHOSTS_OK() && PZ_INSTANCE(p)) \
    __CPROVER_requires(VAR_OK(sample->current_variance) && VAR_OK(result->current_variance)) \
    TL_FRAME(result) \
    __CPROVER_ensures(TL_COEF(result) == (Torus32)(OLD(TL_COEF(result)) - p * TL_COEF(sample)))

#define CONTRACT_tLweMulByXaiMinusOne \
    __CPROVER_requires(TLWE_PARAMS_OK(params) && TLWE_SAMPLE_OK(result) && TLWE_SAMPLE_OK(bk) && TL_GHOSTS_OK() && ai >= 0 && ai < 2 * g_N) \
    TL_FRAME_NOVAR(result) \
    __CPROVER_ensures(TL_COEF(result) == T32(XAI_M1(bk->a[g_i].coefsT, g_N, ai, g_k)))

/* result += (0,...,x,...,0): adds x to coefficient 0 of polynomial pos */
#define CONTRACT_tLweAddTTo \
    __CPROVER_requires(TLWE_PARAMS_OK(params) && TLWE_SAMPLE_OK(result) && TL_GHOSTS_OK() && pos >= 0 && pos <= VERIF_K) \
    TL_FRAME_NOVAR(result) \
    __CPROVER_ensures(TL_COEF(result) == T32(U32(OLD(TL_COEF(result))) + ((g_i == pos && g_k == 0) ? U32(x) : 0u)))

#define CONTRACT_tLweAddRTTo \
    __CPROVER_requires(TLWE_PARAMS_OK(params) && TLWE_SAMPLE_OK(result) && IPOLY_OK(p, g_N) && TL_GHOSTS_OK() && pos >= 0 && pos <= VERIF_K) \
    TL_FRAME_NOVAR(result) \
    __CPROVER_ensures(TL_COEF(result) == (g_i == pos ? (Torus32)(OLD(TL_COEF(result)) + p->coefs[g_k] * x) : OLD(TL_COEF(result))))
#define LOOP_tLweAddRTTo_0(i) \
    __CPROVER_assigns(i, __CPROVER_object_whole(result->a[pos].coefsT)) \
    __CPROVER_loop_invariant(0 <= i && i <= params->N) \
    __CPROVER_loop_invariant(TL_COEF(result) == ((g_i == pos && (i) > g_k) ? (Torus32)(LENTRY(TL_COEF(result)) + p->coefs[g_k] * x) : LENTRY(TL_COEF(result)))) \
    __CPROVER_decreases(params->N - i)

/* ---- sample / key extraction (lwe.cpp).  Ghost g_j in [0,N): target position inside block g_i < k.
 * Oracle: coefficient `index` of the negacyclic product a*s is sum_j ext[j]*s[j] with
 *   ext[j] = a[index-j] for j <= index,  -a[N+index-j] for j > index. */
extern int32_t g_j;
#define LWE_PARAMS_N_OK(p_, n_) (__CPROVER_is_fresh(p_, sizeof(LweParams)) && (p_)->n == (n_))
#define EXT_SPEC(coefs, N_, index, j) ((j) <= (index) ? U32((coefs)[(index) - (j)]) : 0u - U32((coefs)[(N_) + (index) - (j)]))
#define CONTRACT_tLweExtractLweSampleIndex \
    __CPROVER_requires(TLWE_PARAMS_OK(rparams) && g_N <= VERIF_NMAX / VERIF_K && LWE_PARAMS_N_OK(params, VERIF_K * g_N) && TLWE_SAMPLE_OK(x)) \
    __CPROVER_requires(__CPROVER_is_fresh(result, sizeof(LweSample)) && __CPROVER_is_fresh(result->a, (size_t)(VERIF_K * g_N) * sizeof(Torus32))) \
    __CPROVER_requires(0 <= index && index < g_N && 0 <= g_i && g_i < VERIF_K && 0 <= g_j && g_j < g_N) \
    __CPROVER_assigns(__CPROVER_object_whole(result->a), result->b) \
    __CPROVER_ensures(result->a[g_i * g_N + g_j] == T32(EXT_SPEC(x->a[g_i].coefsT, g_N, index, g_j))) \
    __CPROVER_ensures(result->b == x->b->coefsT[index])
#define EXT_DONE(i_, jdone) (result->a[g_i * rparams->N + g_j] == T32(EXT_SPEC(x->a[g_i].coefsT, rparams->N, index, g_j)))
#define LOOP_tLweExtractLweSampleIndex_0(i) \
    __CPROVER_assigns(i, __CPROVER_object_whole(result->a)) \
    __CPROVER_loop_invariant(0 <= i && i <= rparams->k) \
    __CPROVER_loop_invariant((i) > g_i ==> EXT_DONE(i, 0)) \
    __CPROVER_decreases(rparams->k - i)
#define LOOP_tLweExtractLweSampleIndex_1(j) \
    __CPROVER_assigns(j, __CPROVER_object_whole(result->a)) \
    __CPROVER_loop_invariant(0 <= j && j <= index + 1) \
    __CPROVER_loop_invariant((i > g_i || (i == g_i && (j) > g_j)) ==> EXT_DONE(i, j)) \
    __CPROVER_decreases(index + 1 - j)
#define LOOP_tLweExtractLweSampleIndex_2(j) \
    __CPROVER_assigns(j, __CPROVER_object_whole(result->a)) \
    __CPROVER_loop_invariant(index + 1 <= j && j <= rparams->N) \
    __CPROVER_loop_invariant((i > g_i || (i == g_i && (j) > g_j)) ==> EXT_DONE(i, j)) \
    __CPROVER_decreases(rparams->N - j)

#define CONTRACT_tLweExtractLweSample \
    __CPROVER_requires(TLWE_PARAMS_OK(rparams) && g_N <= VERIF_NMAX / VERIF_K && LWE_PARAMS_N_OK(params, VERIF_K * g_N) && TLWE_SAMPLE_OK(x)) \
    __CPROVER_requires(__CPROVER_is_fresh(result, sizeof(LweSample)) && __CPROVER_is_fresh(result->a, (size_t)(VERIF_K * g_N) * sizeof(Torus32))) \
    __CPROVER_requires(0 <= g_i && g_i < VERIF_K && 0 <= g_j && g_j < g_N) \
    __CPROVER_assigns(__CPROVER_object_whole(result->a), result->b) \
    __CPROVER_ensures(result->a[g_i * g_N + g_j] == T32(EXT_SPEC(x->a[g_i].coefsT, g_N, 0, g_j))) \
    __CPROVER_ensures(result->b == x->b->coefsT[0])

#define IP_I_OK(kk, i) ((kk)->key[i].N == g_N && __CPROVER_is_fresh((kk)->key[i].coefs, (size_t)(g_N) * sizeof(int32_t)))
#if VERIF_K == 1
#define KEY_POLYS_OK(kk) (IP_I_OK(kk, 0))
#elif VERIF_K == 2
#define KEY_POLYS_OK(kk) (IP_I_OK(kk, 0) && IP_I_OK(kk, 1))
#else
#define KEY_POLYS_OK(kk) (IP_I_OK(kk, 0) && IP_I_OK(kk, 1) && IP_I_OK(kk, 2))
#endif
#define TLWE_KEY_OK(kk) (__CPROVER_is_fresh(kk, sizeof(TLweKey)) && TLWE_PARAMS_OK((kk)->params) \
    && __CPROVER_is_fresh((kk)->key, (size_t)(VERIF_K) * sizeof(IntPolynomial)) && KEY_POLYS_OK(kk))
#define CONTRACT_tLweExtractKey \
    __CPROVER_requires(TLWE_KEY_OK(key) && g_N <= VERIF_NMAX / VERIF_K) \
    __CPROVER_requires(__CPROVER_is_fresh(result, sizeof(LweKey)) && LWE_PARAMS_N_OK(result->params, VERIF_K * g_N) && __CPROVER_is_fresh(result->key, (size_t)(VERIF_K * g_N) * sizeof(int32_t))) \
    __CPROVER_requires(0 <= g_i && g_i < VERIF_K && 0 <= g_j && g_j < g_N) \
    __CPROVER_assigns(__CPROVER_object_whole(result->key)) \
    __CPROVER_ensures(result->key[g_i * g_N + g_j] == key->key[g_i].coefs[g_j])
#define KEY_DONE() (result->key[g_i * key->params->N + g_j] == key->key[g_i].coefs[g_j])
#define LOOP_tLweExtractKey_0(i) \
    __CPROVER_assigns(i, __CPROVER_object_whole(result->key)) \
    __CPROVER_loop_invariant(0 <= i && i <= key->params->k) \
    __CPROVER_loop_invariant((i) > g_i ==> KEY_DONE()) \
    __CPROVER_decreases(key->params->k - i)
#define LOOP_tLweExtractKey_1(j) \
    __CPROVER_assigns(j, __CPROVER_object_whole(result->key)) \
    __CPROVER_loop_invariant(0 <= j && j <= key->params->N) \
    __CPROVER_loop_invariant((i > g_i || (i == g_i && (j) > g_j)) ==> KEY_DONE()) \
    __CPROVER_decreases(key->params->N - j)
#endif
