/* Contracts for src/libtfhe/numeric-functions.cpp (property C13; used by C03, C04, C01).
 * Oracle: the property statement -- "the integer in [0,M) nearest to M*phase (ties either way)",
 * written in 128-bit integer arithmetic, independent of the code's 63-bit interval trick.
 * M is the message-space size as an unsigned 32-bit quantity, so that M = 2^31 (which reaches the
 * int32_t parameter as INT32_MIN) is inside the domain, as the property requires. */
#ifndef CONTRACTS_NUMERIC_H
#define CONTRACTS_NUMERIC_H

#define MS_U(Msize) ((uint32_t)(Msize))
#define MS_VALID(Msize) (MS_U(Msize) >= 2u && MS_U(Msize) <= 0x80000000u)
#ifdef VERIF_MSIZE
#define MS_INSTANCE(Msize) ((Msize) == (int32_t)(uint32_t)(VERIF_MSIZE))
#else
#define MS_INSTANCE(Msize) 1
#endif

/* D(p,M,r) = M*p - r*2^32 over the integers, p the unsigned torus value */
#define MS_D(phase, Msize, r) (I128(MS_U(Msize)) * I128(U32(phase)) - I128(r) * I128(4294967296))
#define MS_WITHIN(x) ((x) <= I128(2147483648) && (x) >= -I128(2147483648))
/* r is a nearest integer to M*phase/2^32 modulo M (r == 0 also stands for M at the top of the torus) */
#define MS_NEAREST(phase, Msize, r) \
    (MS_WITHIN(MS_D(phase, Msize, r)) || ((r) == 0 && MS_WITHIN(MS_D(phase, Msize, I128(MS_U(Msize))))))

#define CONTRACT_modSwitchFromTorus32 \
    __CPROVER_requires(MS_VALID(Msize) && MS_INSTANCE(Msize)) \
    __CPROVER_assigns() \
    __CPROVER_ensures(__CPROVER_return_value >= 0 && U32(__CPROVER_return_value) < MS_U(Msize)) \
    __CPROVER_ensures(MS_NEAREST(phase, Msize, __CPROVER_return_value))

/* torus encoding of mu/M: within one unit of mu*2^32/M  <=>  |T*M - mu*2^32| <= M (mod 2^32 at the top) */
#define MS_ENC_D(T, Msize, mu) (I128(U32(T)) * I128(MS_U(Msize)) - I128(mu) * I128(4294967296))
#define MS_ENC_OK(T, Msize, mu) (MS_ENC_D(T, Msize, mu) <= I128(MS_U(Msize)) && MS_ENC_D(T, Msize, mu) >= -I128(MS_U(Msize)))
#define CONTRACT_modSwitchToTorus32 \
    __CPROVER_requires(MS_VALID(Msize) && MS_INSTANCE(Msize)) \
    __CPROVER_requires(mu >= 0 && U32(mu) < MS_U(Msize)) \
    __CPROVER_assigns() \
    __CPROVER_ensures(MS_ENC_OK(__CPROVER_return_value, Msize, mu))

/* approxPhase returns the torus encoding of a nearest integer r in [0,M): exists r. This is stated
 * through the ghost g_ms_r that the harness sets to modSwitchFromTorus32(phase,Msize). */
#define CONTRACT_approxPhase \
    __CPROVER_requires(MS_VALID(Msize) && MS_INSTANCE(Msize)) \
    __CPROVER_assigns()

#define CONTRACT_t32tod \
    __CPROVER_requires(1) \
    __CPROVER_assigns() \
    __CPROVER_ensures(__CPROVER_return_value == (double)x / 4294967296.0) \
    __CPROVER_ensures(__CPROVER_return_value >= -0.5 && __CPROVER_return_value < 0.5)

#define CONTRACT_dtot32 \
    __CPROVER_requires(d > -9.0e18 && d < 9.0e18) \
    __CPROVER_assigns()

#endif
