/* Safety contracts for the schoolbook / Karatsuba kernels (multiplication.cpp) -- C16, C11 (memory safety and frames only;
 * the products themselves are bounded stand-ins).  Karatsuba_aux is recursive: every level consumes h*4 + h*4 + size*4 bytes of
 * `buf` and recurses on size/2, so 16*size bytes suffice (8*size*(1 + 1/2 + 1/4 + ..)); the contract is proved with the three
 * recursive calls replaced by this same contract (goto-instrument --enforce-contract-rec). */
#ifndef CONTRACTS_MULT_H
#define CONTRACTS_MULT_H
#ifdef VERIF_BOUND
#define KMAX VERIF_BOUND
#else
#define KMAX 16777216   /* 2^24: 16*size*... stays far below the object-size limit */
#endif
#define CONTRACT_torusPolynomialMultNaive_plain_aux \
    __CPROVER_requires(N >= 1 && N <= KMAX) \
    __CPROVER_requires(__CPROVER_is_fresh(result, (size_t)(2 * N - 1) * sizeof(Torus32)) && __CPROVER_is_fresh(poly1, (size_t)N * sizeof(int32_t)) && __CPROVER_is_fresh(poly2, (size_t)N * sizeof(Torus32))) \
    __CPROVER_assigns(__CPROVER_object_upto(result, (size_t)(2 * N - 1) * sizeof(Torus32)))
#define PLAIN_LOOP_OUT0(i) __CPROVER_assigns(i, ri, __CPROVER_object_upto(result, (size_t)(2 * N - 1) * sizeof(Torus32))) __CPROVER_loop_invariant(0 <= i && i <= N) __CPROVER_decreases(N - i)
#define PLAIN_LOOP_IN0(j) __CPROVER_assigns(j, ri) __CPROVER_loop_invariant(0 <= j && j <= i + 1) __CPROVER_decreases(i + 1 - j)
#define PLAIN_LOOP_OUT1(i) __CPROVER_assigns(i, ri, __CPROVER_object_upto(result, (size_t)(2 * N - 1) * sizeof(Torus32))) __CPROVER_loop_invariant(N <= i && i <= _2Nm1 || (N == 1 && i == N)) __CPROVER_decreases(2 * N - i)
#define PLAIN_LOOP_IN1(j) __CPROVER_assigns(j, ri) __CPROVER_loop_invariant(i - N + 1 <= j && j <= N) __CPROVER_decreases(N - j)
#define LOOP_torusPolynomialMultNaive_plain_aux_0(i) PLAIN_LOOP_OUT0(i)
#define LOOP_torusPolynomialMultNaive_plain_aux_1(j) PLAIN_LOOP_IN0(j)
#define LOOP_torusPolynomialMultNaive_plain_aux_2(i) PLAIN_LOOP_OUT1(i)
#define LOOP_torusPolynomialMultNaive_plain_aux_3(j) PLAIN_LOOP_IN1(j)

#define CONTRACT_Karatsuba_aux \
    __CPROVER_requires(size >= 1 && size <= KMAX) \
    __CPROVER_requires(__CPROVER_is_fresh(R, (size_t)(2 * size - 1) * sizeof(Torus32)) && __CPROVER_is_fresh(A, (size_t)size * sizeof(int32_t)) && __CPROVER_is_fresh(B, (size_t)size * sizeof(Torus32))) \
    __CPROVER_requires(__CPROVER_is_fresh(buf, (size_t)16 * (size_t)size)) \
    __CPROVER_assigns(__CPROVER_object_upto(R, (size_t)(2 * size - 1) * sizeof(Torus32)), __CPROVER_object_upto((char *)buf, (size_t)16 * (size_t)size))
#define LOOP_Karatsuba_aux_0(i) __CPROVER_assigns(i, __CPROVER_object_upto((char *)Atemp, (size_t)h * sizeof(int32_t))) __CPROVER_loop_invariant(0 <= i && i <= h) __CPROVER_decreases(h - i)
#define LOOP_Karatsuba_aux_1(i) __CPROVER_assigns(i, __CPROVER_object_upto((char *)Btemp, (size_t)h * sizeof(Torus32))) __CPROVER_loop_invariant(0 <= i && i <= h) __CPROVER_decreases(h - i)
#define LOOP_Karatsuba_aux_2(i) __CPROVER_assigns(i, __CPROVER_object_upto((char *)Rtemp, (size_t)size * sizeof(Torus32))) __CPROVER_loop_invariant(0 <= i && i <= sm1) __CPROVER_decreases(sm1 - i)
#define LOOP_Karatsuba_aux_3(i) __CPROVER_assigns(i, __CPROVER_object_upto(R, (size_t)(2 * size - 1) * sizeof(Torus32))) __CPROVER_loop_invariant(0 <= i && i <= sm1) __CPROVER_decreases(sm1 - i)
/* wrappers: R (2N-1 entries) and buf (16N bytes) are allocated, handed to Karatsuba_aux (contract), reduced mod X^N+1, released */
#include "c_poly.h"
#define KW_REQ __CPROVER_requires(g_N >= 1 && g_N <= KMAX && IPOLY_OK(poly1, g_N) && TPOLY_OK(poly2, g_N) && TPOLY_OK(result, g_N))
#define KW_LOOP(i) __CPROVER_assigns(i, __CPROVER_object_whole(result->coefsT)) __CPROVER_loop_invariant(0 <= i && i <= N - 1) __CPROVER_decreases(N - 1 - i)
#define CONTRACT_torusPolynomialMultKaratsuba KW_REQ TP_FRAME(result)
#define CONTRACT_torusPolynomialAddMulRKaratsuba KW_REQ TP_FRAME(result)
#define CONTRACT_torusPolynomialSubMulRKaratsuba KW_REQ TP_FRAME(result)
#define LOOP_torusPolynomialMultKaratsuba_0(i) KW_LOOP(i)
#define LOOP_torusPolynomialAddMulRKaratsuba_0(i) KW_LOOP(i)
#define LOOP_torusPolynomialSubMulRKaratsuba_0(i) KW_LOOP(i)
/* schoolbook kernel mod X^N+1 */
#define CONTRACT_torusPolynomialMultNaive_aux \
    __CPROVER_requires(N >= 1 && N <= KMAX) \
    __CPROVER_requires(__CPROVER_is_fresh(result, (size_t)N * sizeof(Torus32)) && __CPROVER_is_fresh(poly1, (size_t)N * sizeof(int32_t)) && __CPROVER_is_fresh(poly2, (size_t)N * sizeof(Torus32))) \
    __CPROVER_assigns(__CPROVER_object_whole(result))
#define LOOP_torusPolynomialMultNaive_aux_0(i) __CPROVER_assigns(i, ri, __CPROVER_object_whole(result)) __CPROVER_loop_invariant(0 <= i && i <= N) __CPROVER_decreases(N - i)
#define LOOP_torusPolynomialMultNaive_aux_1(j) __CPROVER_assigns(j, ri) __CPROVER_loop_invariant(0 <= j && j <= i + 1) __CPROVER_decreases(i + 1 - j)
#define LOOP_torusPolynomialMultNaive_aux_2(j) __CPROVER_assigns(j, ri) __CPROVER_loop_invariant(i + 1 <= j && j <= N) __CPROVER_decreases(N - j)
#endif
