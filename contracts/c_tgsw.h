/* Contracts for gadget decomposition (tgsw-functions.cpp:264-409, tgsw.cpp:7-29) -- property C12 (and C15, C16, C09).
 * Shape parameters (l, Bgbit) = (VERIF_L, VERIF_BGBIT) are enumerated constants; N is symbolic and unbounded;
 * every one of the 2^32 values of the watched coefficient is symbolic.  rows.inc (generated per l by the driver)
 * provides DEC_AND(M), DEC_COMMA(M), DEC_PLUS(M): M(0) op M(1) op ... op M(l-1).
 * Oracle (from the property statement): digits in [-Bg/2, Bg/2), |x - sum_p digit_p * 2^(32-(p+1)Bgbit)| < 2^(32-l*Bgbit)
 * modulo 2^32 (== 0 when l*Bgbit == 32), input restored, same formula at every position. */
#ifndef CONTRACTS_TGSW_H
#define CONTRACTS_TGSW_H
#include "c_tlwe.h"
#include "rows.inc"
extern int32_t g_p;
#define DEC_BG (1 << VERIF_BGBIT)
#define DEC_HALFBG (DEC_BG / 2)
#define DEC_MASK ((uint32_t)DEC_BG - 1u)
#define DEC_W(q) (1u << (32 - ((q) + 1) * VERIF_BGBIT))
#define DEC_OFFSET ((uint32_t)(DEC_PLUS(DEC_W)) * (uint32_t)DEC_HALFBG)
#define DEC_LOWBITS (32 - VERIF_L * VERIF_BGBIT)

#define TGSW_PARAMS_OK(p_) (__CPROVER_is_fresh(p_, sizeof(TGswParams)) && (p_)->l == VERIF_L && (p_)->Bgbit == VERIF_BGBIT \
    && (p_)->Bg == DEC_BG && (p_)->halfBg == DEC_HALFBG && (p_)->maskMod == DEC_MASK && (p_)->offset == DEC_OFFSET \
    && (p_)->kpl == (VERIF_K + 1) * VERIF_L && TLWE_PARAMS_OK((p_)->tlwe_params))

#define DEC_ROW_FRESH(q) __CPROVER_is_fresh(result[q].coefs, (size_t)(g_N) * sizeof(int32_t))
#define DEC_ROW_FRAME(q) __CPROVER_object_whole(result[q].coefs)
/* digit q of the value v (already shifted by the offset) */
#define DEC_DIGIT_OF(v, q) ((int32_t)((((uint32_t)(v)) >> (32 - ((q) + 1) * VERIF_BGBIT)) & DEC_MASK) - DEC_HALFBG)
#define DEC_ROW_IS(q, v) (result[q].coefs[g_k] == DEC_DIGIT_OF(v, q))
/* recomposition from the rows actually written */
#define DEC_TERM(q) ((uint32_t)result[q].coefs[g_k] * DEC_W(q))
#define DEC_RECOMP (DEC_PLUS(DEC_TERM))
#define DEC_BALANCED(q) (result[q].coefs[g_k] >= -DEC_HALFBG && result[q].coefs[g_k] < DEC_HALFBG)
#if (VERIF_L * VERIF_BGBIT) == 32
#define DEC_CLOSE(x) ((uint32_t)(x) - DEC_RECOMP == 0u)
#else
#define DEC_CLOSE(x) (((uint32_t)(x) - DEC_RECOMP) < (1u << DEC_LOWBITS) || (DEC_RECOMP - (uint32_t)(x)) < (1u << DEC_LOWBITS))
#endif

#define CONTRACT_tGswTorus32PolynomialDecompH \
    __CPROVER_requires(TGSW_PARAMS_OK(params) && TPOLY_OK(sample, g_N) && GK_OK(g_N) && 0 <= g_p && g_p < VERIF_L) \
    __CPROVER_requires(__CPROVER_is_fresh(result, (size_t)(VERIF_L) * sizeof(IntPolynomial)) && DEC_AND(DEC_ROW_FRESH)) \
    __CPROVER_assigns(__CPROVER_object_whole(sample->coefsT), DEC_COMMA(DEC_ROW_FRAME)) \
    __CPROVER_ensures(sample->coefsT[g_k] == OLD(sample->coefsT[g_k])) \
    __CPROVER_ensures(DEC_AND(DEC_BALANCED)) \
    __CPROVER_ensures(DEC_CLOSE(sample->coefsT[g_k])) \
    __CPROVER_ensures(result[g_p].coefs[g_k] == DEC_DIGIT_OF(U32(sample->coefsT[g_k]) + DEC_OFFSET, g_p))

/* loop 0: add offset */
#define LOOP_tGswTorus32PolynomialDecompH_0(j) \
    __CPROVER_assigns(j, __CPROVER_object_whole(sample->coefsT)) \
    __CPROVER_loop_invariant(0 <= j && j <= g_N) \
    __CPROVER_loop_invariant(U32(sample->coefsT[g_k]) == U32(LENTRY(sample->coefsT[g_k])) + ((j) > g_k ? DEC_OFFSET : 0u)) \
    __CPROVER_decreases(g_N - j)
/* loop 1: digits, outer over p; rows q < p hold digit q of the shifted value */
#define DEC_ROW_DONE_BEFORE_P(q) ((q) < p ? DEC_ROW_IS(q, sample->coefsT[g_k]) : 1)
#define LOOP_tGswTorus32PolynomialDecompH_1(p) \
    __CPROVER_assigns(p, DEC_COMMA(DEC_ROW_FRAME)) \
    __CPROVER_loop_invariant(0 <= p && p <= VERIF_L) \
    __CPROVER_loop_invariant(DEC_AND(DEC_ROW_DONE_BEFORE_P)) \
    __CPROVER_decreases(VERIF_L - p)
/* loop 2: inner over j for row p */
#define DEC_ROW_DONE_INNER(q) ((q) < p ? DEC_ROW_IS(q, sample->coefsT[g_k]) : ((q) == p && (j) > g_k) ? DEC_ROW_IS(q, sample->coefsT[g_k]) : 1)
#define LOOP_tGswTorus32PolynomialDecompH_2(j) \
    __CPROVER_assigns(j, __CPROVER_object_whole(result[p].coefs)) \
    __CPROVER_loop_invariant(0 <= j && j <= g_N) \
    __CPROVER_loop_invariant(DEC_AND(DEC_ROW_DONE_INNER)) \
    __CPROVER_decreases(g_N - j)
/* loop 3: remove offset */
#define LOOP_tGswTorus32PolynomialDecompH_3(j) \
    __CPROVER_assigns(j, __CPROVER_object_whole(sample->coefsT)) \
    __CPROVER_loop_invariant(0 <= j && j <= g_N) \
    __CPROVER_loop_invariant(U32(sample->coefsT[g_k]) == U32(LENTRY(sample->coefsT[g_k])) - ((j) > g_k ? DEC_OFFSET : 0u)) \
    __CPROVER_decreases(g_N - j)

/* ---- tGswTLweDecompH: applies the polynomial decomposition to the k+1 polynomials of a TLWE sample.
 * rows.inc also provides DEC2_AND / DEC2_COMMA over the (k+1)*l result rows. */
#define DEC2_ROW_FRESH(q) __CPROVER_is_fresh(result[q].coefs, (size_t)(g_N) * sizeof(int32_t))
#define DEC2_ROW_FRAME(q) __CPROVER_object_whole(result[q].coefs)
#define DEC2_SAMPLE_FRAME TL_FRAME_POLYS(sample)
#define CONTRACT_tGswTLweDecompH \
    __CPROVER_requires(TGSW_PARAMS_OK(params) && TLWE_SAMPLE_OK(sample) && TL_GHOSTS_OK() && 0 <= g_p && g_p < VERIF_L) \
    __CPROVER_requires(__CPROVER_is_fresh(result, (size_t)((VERIF_K + 1) * VERIF_L) * sizeof(IntPolynomial)) && DEC2_AND(DEC2_ROW_FRESH)) \
    __CPROVER_assigns(DEC2_SAMPLE_FRAME, DEC2_COMMA(DEC2_ROW_FRAME)) \
    __CPROVER_ensures(TL_COEF(sample) == OLD(TL_COEF(sample))) \
    __CPROVER_ensures(result[g_i * VERIF_L + g_p].coefs[g_k] == DEC_DIGIT_OF(U32(TL_COEF(sample)) + DEC_OFFSET, g_p))

#endif
