/* Gate layer (boot-gates.cpp) -- C01, C15.
 * (1) The affine form  x = C + alpha*ca + beta*cb  handed to the sign bootstrapping, per gate (GATE_C in units of 1/8).
 * (2) The truth-table lemma validates that table against the property statement: for all admissible input phases
 *     (enc(bit) +- 1/32, enc(1)=+1/8, enc(0)=-1/8) the affine form lies at least 1/16 inside the half-torus that the gate's
 *     Boolean function selects.  A wrong constant/sign in the code fails (1); a wrong table fails (2). */
#ifndef CONTRACTS_GATES_H
#define CONTRACTS_GATES_H
#define EIGHTH 0x20000000u
#define T_1_16 0x10000000u
#define T_1_32 0x08000000u
/* name, alpha, beta, C (in eighths), Boolean function of (a,b) */
#define GATE_TABLE(X) \
    X(bootsNAND, -1, -1, 1, !(a && b)) \
    X(bootsOR, 1, 1, 1, (a || b)) \
    X(bootsAND, 1, 1, -1, (a && b)) \
    X(bootsXOR, 2, 2, 2, (a != b)) \
    X(bootsXNOR, -2, -2, -2, (a == b)) \
    X(bootsNOR, -1, -1, -1, !(a || b)) \
    X(bootsANDNY, -1, 1, -1, (!a && b)) \
    X(bootsANDYN, 1, -1, -1, (a && !b)) \
    X(bootsORNY, -1, 1, 1, (!a || b)) \
    X(bootsORYN, 1, -1, 1, (a || !b))
#endif
