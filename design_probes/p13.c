#include <stdint.h>
#include <stdlib.h>
#include "tfhe_core.h"
#include "polynomials.h"
#include "tlwe.h"
#include "tgsw.h"
#ifndef CL
#define CL 3
#define CB 7
#endif
int32_t g_k;   /* ghost coefficient */
int32_t g_p;   /* ghost digit index */
#define U(x) ((uint32_t)(x))
#define OFFSET_OF(l,Bb) offset_const
/* scalar branch of tGswTorus32PolynomialDecompH, text copied from tgsw-functions.cpp:297-409 (#ifndef __AVX2__ parts) */
void
tGswTorus32PolynomialDecompH(IntPolynomial *result, const TorusPolynomial *sample, const TGswParams *params)
__CPROVER_requires(__CPROVER_is_fresh(params, sizeof(*params)) && __CPROVER_is_fresh(params->tlwe_params, sizeof(TLweParams)))
__CPROVER_requires(params->l==CL && params->Bgbit==CB && params->maskMod==(1u<<CB)-1 && params->halfBg==(1<<CB)/2)
__CPROVER_requires(params->tlwe_params->N>=1 && params->tlwe_params->N<=(1<<26))
__CPROVER_requires(__CPROVER_is_fresh(sample, sizeof(*sample)) && __CPROVER_is_fresh(sample->coefsT, sizeof(Torus32)*params->tlwe_params->N))
__CPROVER_requires(__CPROVER_is_fresh(result, sizeof(IntPolynomial)*CL))
__CPROVER_requires(__CPROVER_is_fresh(result[g_p].coefs, sizeof(int32_t)*params->tlwe_params->N))
__CPROVER_requires(0<=g_k && g_k<params->tlwe_params->N && 0<=g_p && g_p<CL)
__CPROVER_assigns(__CPROVER_object_whole(sample->coefsT), __CPROVER_object_whole(result[g_p].coefs))
__CPROVER_ensures(sample->coefsT[g_k]==__CPROVER_old(sample->coefsT[g_k]))
__CPROVER_ensures(result[g_p].coefs[g_k] == (int32_t)(((U(__CPROVER_old(sample->coefsT[g_k]))+params->offset)>>(32-(g_p+1)*CB)) & ((1u<<CB)-1)) - (1<<CB)/2)
{
    const int32_t N = params->tlwe_params->N;
    const int32_t l = params->l;
    const int32_t Bgbit = params->Bgbit;
    uint32_t *buf = (uint32_t *) sample->coefsT;
    const uint32_t maskMod = params->maskMod;
    const int32_t halfBg = params->halfBg;
    const uint32_t offset = params->offset;

    //First, add offset to everyone
    for (int32_t j = 0; j < N; ++j)
    __CPROVER_assigns(j, __CPROVER_object_whole(buf))
    __CPROVER_loop_invariant(0<=j && j<=N)
    __CPROVER_loop_invariant(buf[g_k] == __CPROVER_loop_entry(buf[g_k]) + (j>g_k ? offset : 0u))
    __CPROVER_decreases(N-j)
        buf[j] += offset;

    //then, do the decomposition (in parallel)
    for (int32_t p = 0; p < l; ++p)
    __CPROVER_assigns(p, __CPROVER_object_whole(result[g_p].coefs))
    __CPROVER_loop_invariant(0<=p && p<=l)
    __CPROVER_loop_invariant(p>g_p ==> result[g_p].coefs[g_k] == (int32_t)((buf[g_k] >> (32-(g_p+1)*Bgbit)) & maskMod) - halfBg)
    __CPROVER_decreases(l-p)
    {
        const int32_t decal = (32 - (p + 1) * Bgbit);
        int32_t *res_p = result[p].coefs;
        if (p != g_p) continue;   /* PROBE ONLY: other rows are not is_fresh here */
        for (int32_t j = 0; j < N; ++j)
        __CPROVER_assigns(j, __CPROVER_object_whole(res_p))
        __CPROVER_loop_invariant(0<=j && j<=N)
        __CPROVER_loop_invariant(j>g_k ==> res_p[g_k] == (int32_t)((buf[g_k] >> decal) & maskMod) - halfBg)
        __CPROVER_decreases(N-j)
        {
            uint32_t temp1 = (buf[j] >> decal) & maskMod;
            res_p[j] = temp1 - halfBg;
        }
    }

    //finally, remove offset to everyone
    for (int32_t j = 0; j < N; ++j)
    __CPROVER_assigns(j, __CPROVER_object_whole(buf))
    __CPROVER_loop_invariant(0<=j && j<=N)
    __CPROVER_loop_invariant(buf[g_k] == __CPROVER_loop_entry(buf[g_k]) - (j>g_k ? offset : 0u))
    __CPROVER_decreases(N-j)
        buf[j] -= offset;
}
void h(void){ IntPolynomial *r; const TorusPolynomial *s; const TGswParams *p; tGswTorus32PolynomialDecompH(r,s,p); }
