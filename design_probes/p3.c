#include <stdint.h>
typedef int32_t Torus32;
int32_t modSwitchFromTorus32(Torus32 phase, int32_t Msize){
    uint64_t interv = ((UINT64_C(1)<<63)/Msize)*2; // width of each intervall
    uint64_t half_interval = interv/2; // begin of the first intervall
    uint64_t phase64 = (((uint64_t)(phase))<<32) + half_interval;
    //floor to the nearest multiples of interv
    return phase64/interv;
}
#ifndef MS
#define MS 2048
#endif
void h(void){
  Torus32 phase; int32_t M;
#ifdef SYMM
  __CPROVER_assume(M>=2 && M<=SYMM);
#else
  M = MS;
#endif
  int32_t r = modSwitchFromTorus32(phase, M);
  __CPROVER_assert(r>=0 && r<M, "range");
  /* nearest: | M*p - r'*2^32 | <= 2^31 with r' = r or r+M when r==0 */
  uint64_t p=(uint32_t)phase;
  __int128 mp = (__int128)M * (__int128)p;
  __int128 d1 = mp - ((__int128)r<<32);
  __int128 d2 = mp - (((__int128)r + M)<<32);
  __int128 half = ((__int128)1)<<31;
  int ok1 = (d1 <= half && d1 >= -half);
  int ok2 = (r==0) && (d2 <= half && d2 >= -half);
  __CPROVER_assert(ok1||ok2, "nearest");
}
