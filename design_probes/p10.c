#include <stdint.h>
#include <assert.h>
#include "tfhe_core.h"
#include "polynomials.h"
extern int32_t g_k;
void torusPolynomialMulByXai(TorusPolynomial *result, int32_t a, const TorusPolynomial *source)
__CPROVER_requires(__CPROVER_is_fresh(source, sizeof(*source)) && source->N >= 1 && source->N <= (1<<28))
__CPROVER_requires(__CPROVER_is_fresh(source->coefsT, sizeof(Torus32)*source->N))
__CPROVER_requires(__CPROVER_is_fresh(result, sizeof(*result)) && __CPROVER_is_fresh(result->coefsT, sizeof(Torus32)*source->N))
__CPROVER_requires(a >= 0 && a < 2*source->N)
__CPROVER_requires(0 <= g_k && g_k < source->N)
__CPROVER_assigns(__CPROVER_object_whole(result->coefsT))
__CPROVER_ensures(result->coefsT[g_k] ==
   ( a < source->N ? (g_k < a ? (Torus32)(0u-(uint32_t)source->coefsT[g_k - a + source->N]) : source->coefsT[g_k - a])
                   : (g_k < a-source->N ? source->coefsT[g_k - (a-source->N) + source->N] : (Torus32)(0u-(uint32_t)source->coefsT[g_k - (a-source->N)])) ))
{
    const int32_t N = source->N;
    Torus32 *out = result->coefsT;
    Torus32 *in = source->coefsT;

    assert(a >= 0 && a < 2 * N);
    assert(result != source);

    if (a < N) {
        for (int32_t i = 0; i < a; i++)//sur que i-a<0
        __CPROVER_assigns(i, __CPROVER_object_whole(out))
        __CPROVER_loop_invariant(0<=i && i<=a)
        __CPROVER_loop_invariant(g_k < i ==> out[g_k] == (Torus32)(0u-(uint32_t)in[g_k - a + N]))
        __CPROVER_decreases(a-i)
            out[i] = -in[i - a + N];
        for (int32_t i = a; i < N; i++)//sur que N>i-a>=0
        __CPROVER_assigns(i, __CPROVER_object_whole(out))
        __CPROVER_loop_invariant(a<=i && i<=N)
        __CPROVER_loop_invariant(g_k < a ==> out[g_k] == (Torus32)(0u-(uint32_t)in[g_k - a + N]))
        __CPROVER_loop_invariant((g_k >= a && g_k < i) ==> out[g_k] == in[g_k - a])
        __CPROVER_decreases(N-i)
            out[i] = in[i - a];
    } else {
        const int32_t aa = a - N;
        for (int32_t i = 0; i < aa; i++)//sur que i-a<0
        __CPROVER_assigns(i, __CPROVER_object_whole(out))
        __CPROVER_loop_invariant(0<=i && i<=aa)
        __CPROVER_loop_invariant(g_k < i ==> out[g_k] == in[g_k - aa + N])
        __CPROVER_decreases(aa-i)
            out[i] = in[i - aa + N];
        for (int32_t i = aa; i < N; i++)//sur que N>i-a>=0
        __CPROVER_assigns(i, __CPROVER_object_whole(out))
        __CPROVER_loop_invariant(aa<=i && i<=N)
        __CPROVER_loop_invariant(g_k < aa ==> out[g_k] == in[g_k - aa + N])
        __CPROVER_loop_invariant((g_k >= aa && g_k < i) ==> out[g_k] == (Torus32)(0u-(uint32_t)in[g_k - aa]))
        __CPROVER_decreases(N-i)
            out[i] = -in[i - aa];
    }
}
int32_t g_k;
void h(void){ TorusPolynomial *r; const TorusPolynomial *s; int32_t a; torusPolynomialMulByXai(r,a,s); }
