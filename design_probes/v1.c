#include <stdint.h>
typedef int32_t Torus32;
Torus32 approxPhase(Torus32 phase, int32_t Msize){
    uint64_t interv = ((UINT64_C(1)<<63)/Msize)*2;
    uint64_t half_interval = interv/2;
    uint64_t phase64 = (((uint64_t)(phase))<<32) + half_interval;
    phase64 -= phase64%interv;
    return (int32_t)(phase64>>32); 
}
int32_t modSwitchFromTorus32(Torus32 phase, int32_t Msize){
    uint64_t interv = ((UINT64_C(1)<<63)/Msize)*2;
    uint64_t half_interval = interv/2;
    uint64_t phase64 = (((uint64_t)(phase))<<32) + half_interval;
    return phase64/interv;
}
Torus32 modSwitchToTorus32(int32_t mu, int32_t Msize){
    uint64_t interv = ((UINT64_C(1)<<63)/Msize)*2;
    uint64_t phase64 = mu*interv;
    return phase64>>32;
}
void h(void){ Torus32 ph; int32_t M=MS; int32_t mu; __CPROVER_assume(mu>=0&&mu<M);
  __CPROVER_assert(approxPhase(ph,M)==modSwitchToTorus32(modSwitchFromTorus32(ph,M),M),"approx == encode(round)");
  __CPROVER_assert(modSwitchFromTorus32(modSwitchToTorus32(mu,M),M)==mu,"decode(encode(mu))==mu"); }
void l(void){ int32_t a1,a2,p,s; uint32_t lhs=((uint32_t)a1+(uint32_t)p*(uint32_t)a2)*(uint32_t)s; uint32_t rhs=(uint32_t)a1*(uint32_t)s+(uint32_t)p*((uint32_t)a2*(uint32_t)s); __CPROVER_assert(lhs==rhs,"step linear"); }
