#include <stdint.h>
#include <stdlib.h>
typedef int32_t Torus32;
#ifndef NN
#define NN 16
#endif
void torusPolynomialMultNaive_plain_aux(Torus32* __restrict result, const int32_t* __restrict poly1, const Torus32* __restrict poly2, const int32_t N) {
    const int32_t _2Nm1 = 2*N-1;
    Torus32 ri;
    for (int32_t i=0; i<N; i++) {
	ri=0;
	for (int32_t j=0; j<=i; j++) {
	    ri += poly1[j]*poly2[i-j];
	}
	result[i]=ri;
    }
    for (int32_t i=N; i<_2Nm1; i++) {
	ri=0;
	for (int32_t j=i-N+1; j<N; j++) {
	    ri += poly1[j]*poly2[i-j];
	}
	result[i]=ri;
    }
}
void torusPolynomialMultNaive_aux(Torus32* __restrict result, const int32_t* __restrict poly1, const Torus32* __restrict poly2, const int32_t N) {
    Torus32 ri;
    for (int32_t i=0; i<N; i++) {
		ri=0;
			for (int32_t j=0; j<=i; j++) {
		    	ri += poly1[j]*poly2[i-j];
			}
			for (int32_t j=i+1; j<N; j++) {
		    	ri -= poly1[j]*poly2[N+i-j];
			}
		result[i]=ri;
    }
}
void Karatsuba_aux(Torus32* R, const int32_t* A, const Torus32* B, const int32_t size, const char* buf){
    const int32_t h = size / 2;
	const int32_t sm1 = size-1;
	if (h<=4)
	{
	    torusPolynomialMultNaive_plain_aux(R, A, B, size);
	    return;
	}
	int32_t* Atemp = (int32_t*) buf; buf += h*sizeof(int32_t);
	Torus32* Btemp = (Torus32*) buf; buf+= h*sizeof(Torus32);
	Torus32* Rtemp = (Torus32*) buf; buf+= size*sizeof(Torus32); 
	for (int32_t i = 0; i < h; ++i)
	    Atemp[i] = A[i] + A[h+i];
	for (int32_t i = 0; i < h; ++i)
	    Btemp[i] = B[i] + B[h+i];
	Karatsuba_aux(R, A, B, h, buf);
	Karatsuba_aux(R+size, A+h, B+h, h, buf);
	Karatsuba_aux(Rtemp, Atemp, Btemp, h, buf);
	R[sm1]=0;
	for (int32_t i = 0; i < sm1; ++i) 
	    Rtemp[i] -= R[i] + R[size+i];
	for (int32_t i = 0; i < sm1; ++i) 
	    R[h+i] += Rtemp[i];
}
void h(void){
  int32_t A[NN]; Torus32 B[NN]; Torus32 r1[NN], r2[NN];
  const int32_t N=NN;
#ifdef ONEHOT
  { int32_t ia, jb; __CPROVER_assume(ia>=0&&ia<NN&&jb>=0&&jb<NN); Torus32 cb; for(int i=0;i<NN;i++){ A[i]=(i==ia); B[i]=(i==jb)?cb:0; } }
#endif
#ifdef ABITS
  for(int i=0;i<NN;i++) __CPROVER_assume(A[i]>=-(1<<(ABITS-1)) && A[i]<(1<<(ABITS-1)));
#endif
  Torus32* R = malloc(sizeof(Torus32)*(2*N-1));
  char* buf = malloc(16*N);
  Karatsuba_aux(R, A, B, N, buf);
  for (int32_t i = 0; i < N-1; ++i) r1[i] = R[i] - R[N+i];
  r1[N-1] = R[N-1];
  torusPolynomialMultNaive_aux(r2, A, B, N);
  for (int i=0;i<NN;i++) __CPROVER_assert(r1[i]==r2[i], "karatsuba==naive");
}
