#include <stdint.h>
/* per-coefficient slice of lweKeySwitchTranslate_fromArray */
void h(void){
  int32_t t, basebit; int32_t ai;
  __CPROVER_assume(t>=1 && t<=31 && basebit>=1 && basebit<=31 && t*basebit<=31);
#ifdef CT
  __CPROVER_assume(t==CT && basebit==CB);
#endif
  const int32_t base=1<<basebit;
  const int32_t prec_offset=1<<(32-(1+basebit*t));
  const int32_t mask=base-1;
  const uint32_t aibar=ai+prec_offset;
  uint32_t rec=0;
  for (int32_t j=0;j<t;j++){
    const uint32_t aij=(aibar>>(32-(j+1)*basebit)) & mask;
    __CPROVER_assert(aij < (uint32_t)base, "digit in range");
    rec += aij << (32-(j+1)*basebit);   /* weight of row (i,j,aij): aij*2^(32-(j+1)basebit) */
  }
  int32_t k = 32 - t*basebit; /* dropped bits, >=1 */
  uint32_t lowmask = (k==32)?0xFFFFFFFFu:((1u<<k)-1);
  __CPROVER_assert(rec == (aibar & ~lowmask), "recomposition = rounded value");
  int32_t err = (int32_t)((uint32_t)ai - rec);
  int64_t halfulp = (int64_t)1<<(k-1);
  __CPROVER_assert(err >= -halfulp && err < halfulp, "round to nearest: |err|<=2^(k-1)");
  __CPROVER_assert(err == (int32_t)(aibar & lowmask) - (int32_t)halfulp, "error is centred function of low bits");
}
