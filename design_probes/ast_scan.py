import json,subprocess,sys,collections
SRC='/repo/src/libtfhe/'
targets={
 'numeric-functions.cpp':['modSwitchFromTorus32','approxPhase','modSwitchToTorus32','dtot32','t32tod','gaussian32','tfhe_random_generator_setSeed'],
 'lwe-functions.cpp':['lweKeyGen','lweSymEncrypt','lweSymEncryptWithExternalNoise','lwePhase','lweSymDecrypt','lweClear','lweCopy','lweNegate','lweNoiselessTrivial','lweAddTo','lweSubTo','lweAddMulTo','lweSubMulTo'],
 'lwe.cpp':['tLweExtractLweSampleIndex','tLweExtractLweSample','tLweExtractKey'],
 'toruspolynomial-functions.cpp':['torusPolynomialClear','torusPolynomialCopy','torusPolynomialAdd','torusPolynomialAddTo','torusPolynomialSub','torusPolynomialSubTo','torusPolynomialAddMulZ','torusPolynomialAddMulZTo','torusPolynomialSubMulZ','torusPolynomialSubMulZTo','torusPolynomialMulByXaiMinusOne','torusPolynomialMulByXai','intPolynomialMulByXaiMinusOne','intPolynomialNormSq2'],
 'multiplication.cpp':['torusPolynomialMultNaive_plain_aux','torusPolynomialMultNaive_aux','torusPolynomialMultNaive','Karatsuba_aux','torusPolynomialMultKaratsuba','torusPolynomialAddMulRKaratsuba','torusPolynomialSubMulRKaratsuba','IntPolynomial::IntPolynomial','TorusPolynomial::TorusPolynomial'],
 'tlwe-functions.cpp':['tLweKeyGen','tLweSymEncryptZero','tLweSymEncrypt','tLweSymEncryptT','tLwePhase','tLweApproxPhase','tLweSymDecrypt','tLweSymDecryptT','tLweClear','tLweCopy','tLweNoiselessTrivial','tLweNoiselessTrivialT','tLweAddTo','tLweSubTo','tLweAddMulTo','tLweSubMulTo','tLweAddMulRTo','tLweMulByXaiMinusOne','tLweAddTTo','tLweAddRTTo'],
 'tlwe.cpp':['TLweParams::TLweParams','TLweKey::TLweKey','TLweSample::TLweSample'],
 'tgsw.cpp':['TGswParams::TGswParams','TGswKey::TGswKey'],
 'tgsw-functions.cpp':['init_TGswSample','tGswClear','tGswAddH','tGswAddMuH','tGswAddMuIntH','tGswEncryptZero','tGswMulByXaiMinusOne','tGswExternMulToTLwe','tGswSymEncrypt','tGswSymEncryptInt','tGswEncryptB','tGswSymDecrypt','tGswTLweDecompH','tGswTorus32PolynomialDecompH','tGswExternProduct','tGswNoiselessTrivial'],
 'tgsw-fft-operations.cpp':['tGswToFFTConvert','tGswFFTExternMulToTLwe'],
 'tlwe-fft-operations.cpp':['tLweToFFTConvert','tLweFromFFTConvert','tLweFFTClear','tLweFFTAddMulRTo'],
 'lwe-keyswitch-functions.cpp':['lweCreateKeySwitchKey_fromArray','lweKeySwitchTranslate_fromArray','lweCreateKeySwitchKey','lweKeySwitch','init_LweKeySwitchKey','destroy_LweKeySwitchKey','renormalizeKSkey'],
 'lwekeyswitch.cpp':['LweKeySwitchKey::LweKeySwitchKey'],
 'lwesamples.cpp':['LweSample::LweSample'],
 'lwekey.cpp':['LweKey::LweKey'],
 'lweparams.cpp':['LweParams::LweParams'],
 'lwe-bootstrapping-functions.cpp':['tfhe_MuxRotate','tfhe_blindRotate','tfhe_blindRotateAndExtract','tfhe_bootstrap_woKS','tfhe_bootstrap','tfhe_createLweBootstrappingKey','init_LweBootstrappingKey'],
 'lwe-bootstrapping-functions-fft.cpp':['tfhe_MuxRotate_FFT','tfhe_blindRotate_FFT','tfhe_blindRotateAndExtract_FFT','tfhe_bootstrap_woKS_FFT','tfhe_bootstrap_FFT','init_LweBootstrappingKeyFFT'],
 'boot-gates.cpp':['bootsNAND','bootsOR','bootsAND','bootsXOR','bootsXNOR','bootsNOT','bootsCOPY','bootsCONSTANT','bootsNOR','bootsANDNY','bootsANDYN','bootsORNY','bootsORYN','bootsMUX'],
 'tfhe_gate_bootstrapping.cpp':['default_80bit_gate_bootstrapping_parameters','default_128bit_gate_bootstrapping_parameters','new_default_gate_bootstrapping_parameters','bootsSymEncrypt','bootsSymDecrypt','new_random_gate_bootstrapping_secret_keyset','die_dramatically'],
 'tfhe_gate_bootstrapping_structures.cpp':['TFheGateBootstrappingParameterSet::TFheGateBootstrappingParameterSet'],
 'tfhe_io.cpp':['read_lweSample','read_lweKey_content','read_tLweSample','read_tLweKey_content','read_tGswSample','read_tGswKey_content','read_lweKeySwitchKey_content','read_LweBootstrappingKey_content'],
 'tfhe_generic_streams.cpp':['CIstream::fread'],
}
PLAIN={'CompoundStmt','DeclStmt','VarDecl','ForStmt','WhileStmt','DoStmt','IfStmt','ReturnStmt','BinaryOperator','UnaryOperator','CompoundAssignOperator','ImplicitCastExpr','DeclRefExpr','IntegerLiteral','FloatingLiteral','ArraySubscriptExpr','MemberExpr','CallExpr','ParenExpr','CStyleCastExpr','ConditionalOperator','ParmVarDecl','NullStmt','ContinueStmt','BreakStmt','StringLiteral','UnaryExprOrTypeTraitExpr','CharacterLiteral','GNUNullExpr','ConstantExpr'}
def parse_multi(txt):
    dec=json.JSONDecoder(); i=0; out=[]
    while i<len(txt):
        while i<len(txt) and txt[i].isspace(): i+=1
        if i>=len(txt): break
        o,j=dec.raw_decode(txt,i); out.append(o); i=j
    return out
glob=collections.Counter(); perfn={}
for f,fns in targets.items():
    for fn in fns:
        r=subprocess.run(['clang++','-std=gnu++11','-fsyntax-only','-I/repo/src/include','-Xclang','-ast-dump=json','-Xclang','-ast-dump-filter='+fn,SRC+f],capture_output=True,text=True)
        objs=[o for o in parse_multi(r.stdout) if o.get('kind') in('FunctionDecl','CXXConstructorDecl','CXXMethodDecl') and any(c.get('kind')=='CompoundStmt' for c in o.get('inner',[])) and (o.get('name')==fn.split('::')[-1])]
        if not objs: print('!! not found',f,fn); continue
        kinds=collections.Counter(); loops=0; extra=[]
        def walk(n):
            global loops
            k=n.get('kind')
            if k:
                kinds[k]+=1
                if k in('ForStmt','WhileStmt','DoStmt'): loops+=1
                if k=='VarDecl' and n.get('storageClass')=='static': extra.append('static-local:'+n.get('name',''))
                if k=='DeclRefExpr':
                    rd=n.get('referencedDecl',{})
                    nm=rd.get('name','')
                    if nm in('generator','uniformTorus32_distrib','cerr','endl','swap'): extra.append('ref:'+nm)
                if k=='CXXOperatorCallExpr': extra.append('opcall')
                if k in ('GCCAsmStmt',): extra.append('ASM')
            for c in n.get('inner',[]): walk(c)
        walk(objs[0])
        nonplain={k:v for k,v in kinds.items() if k not in PLAIN}
        perfn[fn]=(loops,nonplain,sorted(set(extra)))
        for k in nonplain: glob[k]+=1
        print(f'{fn:45s} loops={loops:2d} nonC={dict(nonplain)} {sorted(set(extra))}')
print('\nGLOBAL non-C kinds (by #functions):',dict(glob))
