#include <stdint.h>
#include <stdlib.h>
typedef struct { int32_t *a; int32_t b; } S;
int32_t sumb(S** tab, int32_t n, S* raw)
__CPROVER_requires(n>=1 && n<=1000000)
__CPROVER_requires(__CPROVER_is_fresh(raw, sizeof(S)*4*n))
__CPROVER_requires(__CPROVER_is_fresh(tab, sizeof(S*)*n))
__CPROVER_requires(__CPROVER_forall { int32_t q; (0<=q && q<n) ==> tab[q] == raw + 4*q })
__CPROVER_assigns()
__CPROVER_ensures(1)
{
  int32_t acc=0;
  for (int32_t i=0;i<n;i++)
  __CPROVER_assigns(i,acc)
  __CPROVER_loop_invariant(0<=i && i<=n)
  __CPROVER_decreases(n-i)
  { acc += tab[i][3].b; }
  return acc;
}
void h(void){ S** t; int32_t n; S* r; sumb(t,n,r); }
