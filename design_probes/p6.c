#include <stdint.h>
typedef int32_t Torus32;
static const int64_t _two32 = INT64_C(1) << 32;
static const double _two32_double = 4294967296.0;
Torus32 dtot32(double d) { return (int32_t)((int64_t)((d - (int64_t)(d))*_two32)); }
double t32tod(Torus32 x) { return (double)(x)/_two32_double; }
void h(void){ Torus32 x; __CPROVER_assert(dtot32(t32tod(x))==x, "roundtrip"); }
void h2(void){ double d; int32_t k; __CPROVER_assume(d>-1000.0 && d<1000.0 && k>=-1000 && k<=1000);
  Torus32 a=dtot32(d), b=dtot32(d+(double)k); int32_t diff=a-b; __CPROVER_assert(diff>=-1&&diff<=1,"periodic up to 1ulp"); }
