#include <stdint.h>
/* per-coefficient slice of TGswParams ctor + tGswTorus32PolynomialDecompH scalar path */
void h(void){
  int32_t l, Bgbit; uint32_t x;
  __CPROVER_assume(l>=1 && l<=32 && Bgbit>=1 && Bgbit<=31 && l*Bgbit<=32);
#ifdef CL
  __CPROVER_assume(l==CL && Bgbit==CB);
#endif
  int32_t Bg = 1<<Bgbit, halfBg = Bg/2; uint32_t maskMod = Bg-1;
  uint32_t temp1=0;
  for (int32_t i=0;i<l;++i){ uint32_t temp0 = 1 << (32-(i+1)*Bgbit); temp1 += temp0; }
  uint32_t offset = temp1*halfBg;
  uint32_t buf = x + offset;
  int64_t recomposed = 0; /* sum digit_p * 2^(32-(p+1)Bgbit) mod 2^32 */
  uint32_t rec=0;
  for (int32_t p=0;p<l;++p){
     int32_t decal = 32-(p+1)*Bgbit;
     uint32_t t1 = (buf>>decal)&maskMod;
     int32_t digit = t1 - halfBg;
     __CPROVER_assert(digit >= -halfBg && digit < halfBg, "digit balanced");
     rec += (uint32_t)digit << decal;
  }
  buf -= offset;
  __CPROVER_assert(buf==x,"restored");
  uint32_t diff = x - rec; /* truncation error */
  int32_t sd = (int32_t)diff;
  int32_t k = 32 - l*Bgbit;
  if (k==0) __CPROVER_assert(diff==0,"exact when l*Bgbit=32");
  else { int64_t bound = (int64_t)1<<k; __CPROVER_assert((int64_t)sd < bound && (int64_t)sd > -bound, "trunc bound");
         __CPROVER_assert((int64_t)sd < (bound/2) + 0 && (int64_t)sd >= -(bound/2) , "half-ulp bound (informational)"); }
}
