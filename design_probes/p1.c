#include <stdint.h>
#include <stdlib.h>
#include "tfhe_core.h"
#include "lweparams.h"
#include "lwesamples.h"
#include "lwekey.h"

extern int32_t g_k; /* ghost index */

void lweAddTo(LweSample* result, const LweSample* sample, const LweParams* params)
__CPROVER_requires(__CPROVER_is_fresh(params, sizeof(*params)) && params->n >= 1 && params->n <= 100000000)
__CPROVER_requires(__CPROVER_is_fresh(result, sizeof(*result)) && __CPROVER_is_fresh(result->a, sizeof(Torus32)*params->n))
__CPROVER_requires(__CPROVER_is_fresh(sample, sizeof(*sample)) && __CPROVER_is_fresh(sample->a, sizeof(Torus32)*params->n))
__CPROVER_requires(0 <= g_k && g_k < params->n)
__CPROVER_assigns(__CPROVER_object_whole(result->a), result->b, result->current_variance)
__CPROVER_ensures(result->a[g_k] == (Torus32)((uint32_t)__CPROVER_old(result->a[g_k]) + (uint32_t)sample->a[g_k]))
__CPROVER_ensures(result->b == (Torus32)((uint32_t)__CPROVER_old(result->b) + (uint32_t)sample->b))
__CPROVER_ensures(result->a == __CPROVER_old(result->a))
{
    const int32_t n = params->n;

    for (int32_t i = 0; i < n; ++i)
    __CPROVER_assigns(i, __CPROVER_object_whole(result->a))
    __CPROVER_loop_invariant(0 <= i && i <= n)
    __CPROVER_loop_invariant(result->a[g_k] == (Torus32)((uint32_t)__CPROVER_loop_entry(result->a[g_k]) + (i > g_k ? (uint32_t)sample->a[g_k] : 0u)))
    __CPROVER_decreases(n - i)
    { result->a[i] += sample->a[i]; }
    result->b += sample->b;
    result->current_variance += sample->current_variance; 
}

int32_t g_k;
void h_lweAddTo(void) {
  LweSample* r; const LweSample* s; const LweParams* p;
  lweAddTo(r, s, p);
}
