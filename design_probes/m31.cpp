#include <cstdio>
#include <cstdint>
typedef int32_t Torus32;
int32_t modSwitchFromTorus32(Torus32 phase, int32_t Msize){
    uint64_t interv = ((UINT64_C(1)<<63)/Msize)*2; // width of each intervall
    uint64_t half_interval = interv/2; // begin of the first intervall
    uint64_t phase64 = (uint64_t(phase)<<32) + half_interval;
    return phase64/interv;
}
int main(){ volatile int32_t M = (int32_t)(1u<<31); printf("M=%d\n",M); uint64_t interv=((UINT64_C(1)<<63)/M)*2; printf("interv=%llu\n",(unsigned long long)interv); printf("%d\n", modSwitchFromTorus32(12345678,M)); }
