#include <stdint.h>
#include <stdlib.h>
#include <assert.h>
#include "tfhe_core.h"
#include "polynomials.h"
#include "lweparams.h"
#include "lwesamples.h"
#include "tlwe.h"
#ifndef KK
#define KK 2
#endif
int32_t g_i, g_j;
#define NEG(x) ((Torus32)(0u-(uint32_t)(x)))
void tLweExtractLweSampleIndex(LweSample* result, const TLweSample* x, const int32_t index, const LweParams* params,  const TLweParams* rparams)
__CPROVER_requires(__CPROVER_is_fresh(rparams, sizeof(*rparams)) && rparams->k==KK && rparams->N>=1 && rparams->N <= (1<<24))
__CPROVER_requires(__CPROVER_is_fresh(params, sizeof(*params)) && params->n == KK*rparams->N)
__CPROVER_requires(__CPROVER_is_fresh(result, sizeof(*result)) && __CPROVER_is_fresh(result->a, (size_t)(KK*rparams->N)*sizeof(Torus32)))
__CPROVER_requires(__CPROVER_is_fresh(x, sizeof(*x)) && __CPROVER_is_fresh(x->a, sizeof(TorusPolynomial)*(KK+1)) && x->b == x->a + KK)
__CPROVER_requires(__CPROVER_is_fresh(x->a[0].coefsT, sizeof(Torus32)*rparams->N))
__CPROVER_requires(__CPROVER_is_fresh(x->a[1].coefsT, sizeof(Torus32)*rparams->N))
__CPROVER_requires(__CPROVER_is_fresh(x->a[2].coefsT, sizeof(Torus32)*rparams->N))
__CPROVER_requires(0<=index && index<rparams->N && 0<=g_i && g_i<KK && 0<=g_j && g_j<rparams->N)
__CPROVER_assigns(__CPROVER_object_whole(result->a), result->b)
__CPROVER_ensures(result->a[g_i*rparams->N+g_j] == (g_j<=index ? x->a[g_i].coefsT[index-g_j] : NEG(x->a[g_i].coefsT[rparams->N+index-g_j])))
__CPROVER_ensures(result->b == x->a[KK].coefsT[index])
{
    const int32_t N = rparams->N;
    const int32_t k = rparams->k;
    assert(params->n == k*N);

    for (int32_t i=0; i<k; i++)
    __CPROVER_assigns(i, __CPROVER_object_whole(result->a))
    __CPROVER_loop_invariant(0<=i && i<=k)
    __CPROVER_loop_invariant(i>g_i ==> result->a[g_i*N+g_j] == (g_j<=index ? x->a[g_i].coefsT[index-g_j] : NEG(x->a[g_i].coefsT[N+index-g_j])))
    __CPROVER_decreases(k-i)
    {
      for (int32_t j=0; j<=index; j++)
      __CPROVER_assigns(j, __CPROVER_object_whole(result->a))
      __CPROVER_loop_invariant(0<=j && j<=index+1)
      __CPROVER_loop_invariant(i>g_i ==> result->a[g_i*N+g_j] == __CPROVER_loop_entry(result->a[g_i*N+g_j]))
      __CPROVER_loop_invariant((i==g_i && g_j<j) ==> result->a[g_i*N+g_j] == x->a[g_i].coefsT[index-g_j])
      __CPROVER_decreases(index+1-j)
        result->a[i*N+j] = x->a[i].coefsT[index-j];
      for (int32_t j=index+1; j<N; j++)
      __CPROVER_assigns(j, __CPROVER_object_whole(result->a))
      __CPROVER_loop_invariant(index+1<=j && j<=N)
      __CPROVER_loop_invariant(i>g_i ==> result->a[g_i*N+g_j] == __CPROVER_loop_entry(result->a[g_i*N+g_j]))
      __CPROVER_loop_invariant((i==g_i && g_j<=index) ==> result->a[g_i*N+g_j] == x->a[g_i].coefsT[index-g_j])
      __CPROVER_loop_invariant((i==g_i && g_j>index && g_j<j) ==> result->a[g_i*N+g_j] == NEG(x->a[g_i].coefsT[N+index-g_j]))
      __CPROVER_decreases(N-j)
        result->a[i*N+j] = -x->a[i].coefsT[N+index-j];
    }
    result->b = x->b->coefsT[index];
}
void h(void){ LweSample* r; const TLweSample* x; int32_t idx; const LweParams* p; const TLweParams* rp; tLweExtractLweSampleIndex(r,x,idx,p,rp); }
