#include <stdint.h>
#include <stdlib.h>
#include "tfhe_core.h"
#include "lweparams.h"
#include "lwesamples.h"
#include "lwekey.h"
#include "tlwe.h"
#include "tgsw.h"
#include "lwekeyswitch.h"
#include "lwebootstrappingkey.h"
#include "tfhe_gate_bootstrapping_structures.h"

int32_t g_k; /* ghost coordinate */
/* ghost capture of what reaches the bootstrap */
Torus32 cap_mu, cap_xa, cap_xb; int cap_calls;

Torus32 modSwitchToTorus32(int32_t mu, int32_t Msize)
__CPROVER_requires(Msize==8 || Msize==4)
__CPROVER_requires(mu==1 || mu==-1)
__CPROVER_assigns()
__CPROVER_ensures(__CPROVER_return_value == (Torus32)((uint32_t)mu * (Msize==8 ? 0x20000000u : 0x40000000u)))
;

LweSample* new_LweSample(const LweParams* params)
__CPROVER_requires(params->n >=1 && params->n <= 100000000)
__CPROVER_assigns()
__CPROVER_ensures(__CPROVER_is_fresh(__CPROVER_return_value, sizeof(LweSample)) && __CPROVER_is_fresh(__CPROVER_return_value->a, sizeof(Torus32)*params->n))
;
void delete_LweSample(LweSample* obj)
__CPROVER_requires(1)
__CPROVER_assigns()
__CPROVER_ensures(1)
;
#define U(x) ((uint32_t)(x))
void lweNoiselessTrivial(LweSample* result, Torus32 mu, const LweParams* params)
__CPROVER_assigns(__CPROVER_object_whole(result->a), result->b, result->current_variance)
__CPROVER_ensures(result->a[g_k]==0 && result->b==mu && result->a == __CPROVER_old(result->a))
;
void lweSubTo(LweSample* result, const LweSample* sample, const LweParams* params)
__CPROVER_assigns(__CPROVER_object_whole(result->a), result->b, result->current_variance)
__CPROVER_ensures(result->a[g_k] == (Torus32)(U(__CPROVER_old(result->a[g_k])) - U(sample->a[g_k])))
__CPROVER_ensures(result->b == (Torus32)(U(__CPROVER_old(result->b)) - U(sample->b)) && result->a == __CPROVER_old(result->a))
;
void lweAddTo(LweSample* result, const LweSample* sample, const LweParams* params)
__CPROVER_assigns(__CPROVER_object_whole(result->a), result->b, result->current_variance)
__CPROVER_ensures(result->a[g_k] == (Torus32)(U(__CPROVER_old(result->a[g_k])) + U(sample->a[g_k])))
__CPROVER_ensures(result->b == (Torus32)(U(__CPROVER_old(result->b)) + U(sample->b)) && result->a == __CPROVER_old(result->a))
;
/* monitor shim for the bootstrap: records what it is given */
void tfhe_bootstrap_FFT(LweSample *result, const LweBootstrappingKeyFFT *bk, Torus32 mu, const LweSample *x)
{ cap_mu = mu; cap_xa = x->a[g_k]; cap_xb = x->b; cap_calls++; }

/* ---- extracted text of bootsNAND (static dropped, EXPORT dropped) ---- */
void
bootsNAND(LweSample *result, const LweSample *ca, const LweSample *cb, const TFheGateBootstrappingCloudKeySet *bk) {
    const Torus32 MU = modSwitchToTorus32(1, 8);
    const LweParams *in_out_params = bk->params->in_out_params;

    LweSample *temp_result = new_LweSample(in_out_params);

    //compute: (0,1/8) - ca - cb
    const Torus32 NandConst = modSwitchToTorus32(1, 8);
    lweNoiselessTrivial(temp_result, NandConst, in_out_params);
    lweSubTo(temp_result, ca, in_out_params);
    lweSubTo(temp_result, cb, in_out_params);

    //if the phase is positive, the result is 1/8
    //if the phase is positive, else the result is -1/8
    tfhe_bootstrap_FFT(result, bk->bkFFT, MU, temp_result);

    delete_LweSample(temp_result);
}

void h(void){
  LweParams *p = malloc(sizeof(LweParams)); __CPROVER_assume(p!=0); {int32_t nn; __CPROVER_assume(nn>=1 && nn<=100000000); *(int32_t*)&p->n = nn;}
  TFheGateBootstrappingParameterSet *ps = malloc(sizeof(*ps)); __CPROVER_assume(ps!=0); *(const LweParams**)&ps->in_out_params = p;
  TFheGateBootstrappingCloudKeySet *bk = malloc(sizeof(*bk)); __CPROVER_assume(bk!=0); *(const TFheGateBootstrappingParameterSet**)&bk->params = ps;
  LweSample ca, cb, res; int32_t n=p->n;
  ca.a = malloc(sizeof(Torus32)*n); cb.a=malloc(sizeof(Torus32)*n); res.a=malloc(sizeof(Torus32)*n);
  __CPROVER_assume(ca.a && cb.a && res.a);
  __CPROVER_assume(g_k>=0 && g_k<n);
  Torus32 ca_a=ca.a[g_k], cb_a=cb.a[g_k], ca_b=ca.b, cb_b=cb.b;
  cap_calls=0;
  bootsNAND(&res,&ca,&cb,bk);
  __CPROVER_assert(cap_calls==1,"one bootstrap");
  __CPROVER_assert(cap_mu==0x20000000,"mu=1/8");
  __CPROVER_assert(cap_xa==(Torus32)(0u-U(ca_a)-U(cb_a)),"mask coordinate affine form");
  __CPROVER_assert(cap_xb==(Torus32)(0x20000000u-U(ca_b)-U(cb_b)),"b affine form");
  __CPROVER_assert(ca.a[g_k]==ca_a && cb.a[g_k]==cb_a && ca.b==ca_b && cb.b==cb_b,"inputs untouched");
}
