#include <stdint.h>
#include <stdlib.h>
#include "tfhe_core.h"
#include "polynomials.h"
#include "tlwe.h"
#include "tgsw.h"
/* ghost */
int32_t g_i;                 /* watched index */
int32_t g_calls_watched;     /* MuxRotate calls with bki == bk+g_i */
int32_t g_last_i;            /* index of last call (order check) */
int32_t g_bad;               /* protocol violations */
const TGswSampleFFT* g_bk; const int32_t* g_bara;
TLweSample* g_cur;           /* object currently holding the accumulator */
TLweSample* g_accum; TLweSample* g_temp;
int32_t g_copied;

TLweSample* new_TLweSample(const TLweParams* params)
__CPROVER_requires(1)
__CPROVER_assigns()
__CPROVER_ensures(__CPROVER_is_fresh(__CPROVER_return_value, sizeof(TLweSample)))
;
void delete_TLweSample(TLweSample* obj) { if (obj != g_temp) g_bad++; g_temp = 0; }
/* monitor shims */
void tfhe_MuxRotate_FFT(TLweSample *result, const TLweSample *accum, const TGswSampleFFT *bki, const int32_t barai, const TGswParams *bk_params)
{
  if (g_temp==0) g_temp = result;        /* first call fixes which object is the temporary */
  if (accum != g_cur) g_bad++;           /* must read the current accumulator */
  if (result == accum) g_bad++;          /* must write the other buffer */
  if (!(result==g_accum || result==g_temp)) g_bad++;
  if (barai == 0) g_bad++;               /* zero exponents are skipped */
  int32_t idx = (int32_t)(bki - g_bk);
  if (!(idx > g_last_i)) g_bad++;        /* strictly increasing index order */
  if (barai != g_bara[idx]) g_bad++;
  g_last_i = idx;
  if (idx == g_i) g_calls_watched++;
  g_cur = result;
}
void tLweCopy(TLweSample *result, const TLweSample *sample, const TLweParams *params)
{ if (result != g_accum || sample != g_cur) g_bad++; g_cur = result; g_copied++; }

/* text of tfhe_blindRotate_FFT with R6 (swap) applied */
void tfhe_blindRotate_FFT(TLweSample *accum,
                                 const TGswSampleFFT *bkFFT,
                                 const int32_t *bara,
                                 const int32_t n,
                                 const TGswParams *bk_params) {

    //TGswSampleFFT* temp = new_TGswSampleFFT(bk_params);
    TLweSample *temp = new_TLweSample(bk_params->tlwe_params);
    TLweSample *temp2 = temp;
    TLweSample *temp3 = accum;

    for (int32_t i = 0; i < n; i++)
    __CPROVER_assigns(i, temp2, temp3, g_temp, g_bad, g_last_i, g_calls_watched, g_cur)
    __CPROVER_loop_invariant(0<=i && i<=n && g_bad==0)
    __CPROVER_loop_invariant(g_last_i < i)
    __CPROVER_loop_invariant((temp2==temp && temp3==accum) || (temp2==accum && temp3==temp))
    __CPROVER_loop_invariant(g_cur==temp3)
    __CPROVER_loop_invariant(g_temp==0 || g_temp==temp)
    __CPROVER_loop_invariant(g_temp==0 ==> temp3==accum)
    __CPROVER_loop_invariant(i<=g_i ==> g_calls_watched==0)
    __CPROVER_loop_invariant(i>g_i ==> g_calls_watched==(bara[g_i]!=0))
    __CPROVER_decreases(n-i)
    {
        const int32_t barai = bara[i];
        if (barai == 0) continue; //indeed, this is an easy case!

        tfhe_MuxRotate_FFT(temp2, temp3, bkFFT + i, barai, bk_params);
        { TLweSample* swp_ = temp2; temp2 = temp3; temp3 = swp_; }
    }
    if (temp3 != accum) {
        tLweCopy(accum, temp3, bk_params->tlwe_params);
    }

    if (g_temp==0) g_temp=temp; /* PROBE: allow delete check when no call happened */
    delete_TLweSample(temp);
    //delete_TGswSampleFFT(temp);
}
void h(void){
  int32_t n; __CPROVER_assume(n>=1 && n<=100000000);
  int32_t* bara = malloc(sizeof(int32_t)*n); __CPROVER_assume(bara!=0);
  TGswSampleFFT* bk = malloc(sizeof(TGswSampleFFT)*n); __CPROVER_assume(bk!=0);
  TLweSample* acc = malloc(sizeof(TLweSample)); __CPROVER_assume(acc!=0);
  TGswParams* P = malloc(sizeof(TGswParams)); __CPROVER_assume(P!=0);
  __CPROVER_assume(g_i>=0 && g_i<n);
  g_bk=bk; g_bara=bara; g_accum=acc; g_cur=acc; g_temp=0; g_bad=0; g_last_i=-1; g_calls_watched=0; g_copied=0;
  tfhe_blindRotate_FFT(acc,bk,bara,n,P);
  __CPROVER_assert(g_bad==0,"protocol respected");
  __CPROVER_assert(g_cur==acc,"final accumulator is accum");
  __CPROVER_assert(g_calls_watched==(bara[g_i]!=0),"watched index rotated exactly once iff nonzero");
  __CPROVER_assert(g_temp==0,"temporary freed");
}
