#include <stdio.h>
#include <stdint.h>
int32_t modSwitchFromTorus32(int32_t phase, int32_t Msize){
    uint64_t interv = ((UINT64_C(1)<<63)/Msize)*2;
    uint64_t half_interval = interv/2;
    uint64_t phase64 = (((uint64_t)(phase))<<32) + half_interval;
    return phase64/interv;
}
int main(){
  int found=0;
  for (int64_t M=2; M<=32768; M++){
    uint64_t interv = ((UINT64_C(1)<<63)/M)*2, half=interv/2;
    /* result==M iff phase64 >= M*interv (no wrap) */
    unsigned __int128 top = (unsigned __int128)M*interv; 
    if (top >= ((unsigned __int128)1<<64)) continue;
    uint64_t lo = (uint64_t)top; /* need p<<32 + half in [lo, 2^64) */
    /* p<<32 >= lo-half and p<<32+half < 2^64 */
    uint64_t need = lo - half; 
    uint64_t p = (need + 0xFFFFFFFFull) >> 32; 
    if (p <= 0xFFFFFFFFull) { unsigned __int128 v = ((unsigned __int128)p<<32)+half; if (v < ((unsigned __int128)1<<64) && v>=top) { int32_t r = modSwitchFromTorus32((int32_t)(uint32_t)p,(int32_t)M); if(found<10) printf("M=%ld p=%lu r=%d\n",(long)M,(unsigned long)p,r); found++; } }
  }
  printf("found %d\n",found);
}
