/* C13: torus rounding / modulus switch -- all functions are loop-free, every harness is a complete
 * proof over the full symbolic input domain for the message-space size VERIF_MSIZE. */
#include "verif_prelude.h"
#include "c_numeric.h"
#include "extracted.inc"

#ifdef VERIF_MSIZE
/* enforce CONTRACT_modSwitchFromTorus32 on the real body */
void h_modSwitchFromTorus32(void) {
    Torus32 in_phase; int32_t in_Msize;
    int32_t r = modSwitchFromTorus32(in_phase, in_Msize);
    (void)r;
    VERIF_REACH();
}

void h_modSwitchToTorus32(void) {
    int32_t in_mu; int32_t in_Msize;
    Torus32 r = modSwitchToTorus32(in_mu, in_Msize);
    (void)r;
    VERIF_REACH();
}

/* lemma over the three real bodies: the phase approximation is the torus encoding of the very
 * integer the modulus switch returns, and encode-then-switch is the identity on [0,M) */
void h_approx_roundtrip(void) {
    Torus32 in_phase; int32_t in_mu;
    const int32_t M = (int32_t)(uint32_t)(VERIF_MSIZE);
    int32_t r = modSwitchFromTorus32(in_phase, M);
    Torus32 ap = approxPhase(in_phase, M);
    __CPROVER_assert(ap == modSwitchToTorus32(r, M), "approxPhase is the torus encoding of the modulus-switch integer");
    __CPROVER_assume(in_mu >= 0 && U32(in_mu) < MS_U(M));
    Torus32 enc = modSwitchToTorus32(in_mu, M);
    __CPROVER_assert(modSwitchFromTorus32(enc, M) == in_mu, "encode then modulus-switch returns the integer unchanged");
    __CPROVER_assert(approxPhase(enc, M) == enc, "approxPhase fixes every grid point");
    VERIF_REACH();
}

#else
/* torus <-> real conversions */
void h_t32tod(void) {
    Torus32 in_x;
    double d = t32tod(in_x);
    (void)d;
    VERIF_REACH();
}

void h_conversion(void) {
    Torus32 in_x; int32_t in_k;
    double d = t32tod(in_x);
    __CPROVER_assert(dtot32(d) == in_x, "dtot32(t32tod(x)) == x");
    /* periodicity modulo 1 on the exactly representable grid: d = x/2^32, |k| <= 2^20: d + k is exact */
    __CPROVER_assume(in_k >= -1048576 && in_k <= 1048576);
    __CPROVER_assert(dtot32(d + (double)in_k) == in_x, "dtot32(d + k) == dtot32(d) for integer k");
    __CPROVER_assert(dtot32(0.5) == INT32_MIN && dtot32(-0.5) == INT32_MIN && dtot32(0.25) == 0x40000000 && dtot32(-0.125) == (Torus32)0xE0000000u, "fixed points of the encoding");
    VERIF_REACH();
}
#endif
