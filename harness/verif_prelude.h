/* Common prelude of every generated verification unit (C mode, CBMC front end).
 * The real public headers are included unchanged; they are C99-clean by design. */
#ifndef VERIF_PRELUDE_H
#define VERIF_PRELUDE_H
#include <stdint.h>
#include <stddef.h>
#include <stdlib.h>
#include <assert.h>
#include <iso646.h>   /* R7: and / or / not tokens */
#include <stdbool.h>  /* C++ bool, true, false */
#include "tfhe.h"
/* file-scope constants that numeric_functions.h defines only under __cplusplus,
 * copied verbatim from the real header on every run (tools/extract.py) */
#include "cxx_constants.inc"

#define U32(x) ((uint32_t)(x))
#define T32(x) ((Torus32)(uint32_t)(x))
#define I128(x) ((__int128)(x))
/* reachability canary: must be reported FAILURE, otherwise the harness is vacuous */
#define VERIF_REACH() __CPROVER_assert(0, "VERIF_REACH_CANARY")
/* specification sanity guard (DESIGN 2.4): intended byte count written independently */
#define VERIF_SIZE_GUARD(p, bytes) \
    __CPROVER_assert(__CPROVER_OBJECT_SIZE(p) == (size_t)(bytes) && __CPROVER_POINTER_OFFSET(p) == 0, "spec sanity: object size of " #p)

/* R4: `new` never returns NULL (std::bad_alloc paths are out of scope, stated assumption) */
static inline void *verif_alloc(size_t sz) { void *p = malloc(sz); __CPROVER_assume(p != 0); return p; }
#ifdef VERIF_BOUND
/* bounded arbiter (tools/check.py): the same harness and contracts, dimensions capped, loops unwound instead of loop contracts */
#define VERIF_NMAX VERIF_BOUND
#else
#define VERIF_NMAX 100000000   /* upper bound on symbolic dimensions (keeps 4*n inside the object-size range); not an unwinding bound */
#endif
#endif
