/* C03 / C07: encryption, decryption, key generation -- wiring and noise-parameter plumbing.
 * The samplers are declared-only draws (verif_samplers.h, assumed contract); dtot32 / gaussian32 / approxPhase are
 * ghost-recording monitors where the harness says so. */
#include "verif_prelude.h"
#include "verif_samplers.h"
#include "c_enc.h"
int32_t g_k;

#ifdef H_GAUSSIAN
static double m_d; static int n_dtot; static Torus32 m_ret;
Torus32 dtot32(double d) { m_d = d; n_dtot++; Torus32 r; m_ret = r; return r; }
#include "extracted.inc"
void h_gaussian32(void) {
    Torus32 in_msg; double in_sigma; __CPROVER_assume(in_sigma >= 0.0 && in_sigma <= 1.0);
    SAMPLERS_RESET(); n_dtot = 0;
    Torus32 r = gaussian32(in_msg, in_sigma);
    __CPROVER_assert(g_n_normal == 1 && g_n_uniform_t32 == 0 && g_n_uniform_int == 0, "exactly one normal draw");
    __CPROVER_assert(g_last_mean == 0.0 && g_last_sigma == in_sigma, "the draw is centred and uses the requested standard deviation unchanged");
    __CPROVER_assert(n_dtot == 1 && m_d == g_last_normal, "the drawn error is converted to the torus once");
    __CPROVER_assert(U32(r) == U32(in_msg) + U32(m_ret), "result = message + error (mod 1)");
    VERIF_REACH();
}
#endif

#ifdef H_ENCRYPT
static int n_g; static Torus32 g_msg, g_ret; static double g_sig;
Torus32 gaussian32(Torus32 message, double sigma) { n_g++; g_msg = message; g_sig = sigma; Torus32 r; g_ret = r; return r; }
static int n_dtot; static double m_d; static Torus32 m_ret;
Torus32 dtot32(double d) { m_d = d; n_dtot++; Torus32 r; m_ret = r; return r; }
#include "extracted.inc"
void h_lweSymEncrypt(void) {
    int32_t n; __CPROVER_assume(n >= 1 && n <= VERIF_NMAX);
    LweParams par; *(int32_t *)&par.n = n; LweKey key; key.params = &par; key.key = verif_alloc((size_t)n * sizeof(int32_t));
    LweSample res; res.a = verif_alloc((size_t)n * sizeof(Torus32));
    /* the IEEE product alpha*alpha is not decidable for symbolic alpha (see DESIGN 8.2): alpha is an enumerated instance */
    Torus32 in_msg; const double in_alpha = VERIF_ALPHA;
    int32_t gk; __CPROVER_assume(gk >= 0 && gk < n); g_k = gk; int32_t kk = key.key[g_k];
    SAMPLERS_RESET(); n_g = 0; n_dtot = 0;
#ifdef EXTERNAL_NOISE
    double in_noise; __CPROVER_assume(in_noise > -1.0 && in_noise < 1.0);
    lweSymEncryptWithExternalNoise(&res, in_msg, in_noise, in_alpha, &key);
    __CPROVER_assert(n_g == 0 && n_dtot == 1 && m_d == in_noise && g_n_normal == 0, "the given noise value is used, no fresh gaussian draw");
#else
    lweSymEncrypt(&res, in_msg, in_alpha, &key);
    __CPROVER_assert(n_g == 1 && g_msg == in_msg && g_sig == in_alpha, "one gaussian error of the requested standard deviation around the message");
#endif
    __CPROVER_assert(g_n_uniform_t32 == n, "one uniform torus draw per mask coefficient");
    __CPROVER_assert(res.current_variance == in_alpha * in_alpha, "variance annotation alpha^2");
    __CPROVER_assert(key.key[g_k] == kk, "key untouched");
    free(key.key); free(res.a);
    VERIF_REACH();
}
#endif

#ifdef H_KEYGEN
#include "extracted.inc"
void h_lweKeyGen(void) {
    int32_t n; __CPROVER_assume(n >= 1 && n <= VERIF_NMAX);
    LweParams par; *(int32_t *)&par.n = n; LweKey key; key.params = &par; key.key = verif_alloc((size_t)n * sizeof(int32_t));
    int32_t gk; __CPROVER_assume(gk >= 0 && gk < n); g_k = gk;
    SAMPLERS_RESET();
    lweKeyGen(&key);
    __CPROVER_assert(g_n_uniform_int == n && g_n_normal == 0 && g_n_uniform_t32 == 0, "one draw per key coefficient, from the integer sampler only");
    __CPROVER_assert(g_ui_lo == 0 && g_ui_hi == 1, "drawn from the uniform distribution on {0,1}");
    __CPROVER_assert(key.key[g_k] == 0 || key.key[g_k] == 1, "every key coefficient is a bit");
    free(key.key);
    VERIF_REACH();
}
#endif

#ifdef H_PAIRING
/* bounded stand-in: the two loops (encryption mask/b accumulation, phase) agree on sum a_i*s_i, for arbitrary integer keys */
static Torus32 g_err;
Torus32 gaussian32(Torus32 message, double sigma) { Torus32 e; g_err = e; return (Torus32)(U32(message) + U32(e)); }
Torus32 approxPhase(Torus32 phase, int32_t Msize) { return phase; }   /* not used here */
#include "extracted.inc"
void h_b_pairing(void) {
    const int32_t n = VERIF_BN;
    LweParams par; *(int32_t *)&par.n = n; LweKey key; key.params = &par; int32_t kk[VERIF_BN]; key.key = kk;
    LweSample res; Torus32 aa[VERIF_BN]; res.a = aa;
    Torus32 in_msg; double alpha = 0.0;
    SAMPLERS_RESET();
    lweSymEncrypt(&res, in_msg, alpha, &key);
    Torus32 ph = lwePhase(&res, &key);
    __CPROVER_assert(U32(ph) == U32(in_msg) + U32(g_err), "phase of a fresh encryption = message + the gaussian error, exactly, under the same key (any integer key)");
    /* noiseless trivial sample: phase == mu under every key */
    Torus32 mu; for (int i = 0; i < n; i++) aa[i] = 0; res.b = mu;
    __CPROVER_assert(lwePhase(&res, &key) == mu, "noiseless trivial sample has phase mu under every key");
    VERIF_REACH();
}
#endif

#ifdef H_DECRYPT
static int n_ph, n_ap; static const LweSample *p_s; static const LweKey *p_k; static Torus32 p_ret, a_in, a_ret; static int32_t a_M;
Torus32 lwePhase(const LweSample *sample, const LweKey *key) { n_ph++; p_s = sample; p_k = key; Torus32 r; p_ret = r; return r; }
Torus32 approxPhase(Torus32 phase, int32_t Msize) { n_ap++; a_in = phase; a_M = Msize; Torus32 r; a_ret = r; return r; }
static int n_enc; static LweSample *e_r; static Torus32 e_mu; static double e_alpha; static const LweKey *e_k;
void lweSymEncrypt(LweSample *result, Torus32 message, double alpha, const LweKey *key) { n_enc++; e_r = result; e_mu = message; e_alpha = alpha; e_k = key; }
#include "extracted.inc"
void h_decrypt_wiring(void) {
    LweSample s; LweKey k; int32_t in_M; __CPROVER_assume(in_M >= 2);
    n_ph = n_ap = n_enc = 0;
    Torus32 r = lweSymDecrypt(&s, &k, in_M);
    __CPROVER_assert(n_ph == 1 && p_s == &s && p_k == &k && n_ap == 1 && a_in == p_ret && a_M == in_M && r == a_ret, "lweSymDecrypt rounds the phase under the given key to the message grid 1/Msize");
    /* gate API */
    TFheGateBootstrappingSecretKeySet sk; TFheGateBootstrappingParameterSet ps; LweParams ip;
    *(double *)&ip.alpha_min = 0x1p-15; *(const LweParams **)&ps.in_out_params = &ip; sk.params = &ps; sk.lwe_key = &k;
    int32_t in_bit; LweSample ct;
    bootsSymEncrypt(&ct, in_bit, &sk);
    __CPROVER_assert(n_enc == 1 && e_r == &ct && e_k == &k && e_alpha == ip.alpha_min, "a fresh gate ciphertext is an LWE encryption under the LWE key with the input-key noise level");
    __CPROVER_assert(U32(e_mu) == (in_bit ? 0x20000000u : 0xE0000000u), "bit encoding +-1/8");
    n_ph = 0;
    int32_t d = bootsSymDecrypt(&ct, &sk);
    __CPROVER_assert(n_ph == 1 && p_s == &ct && p_k == &k && d == ((int32_t)p_ret > 0 ? 1 : 0), "decryption = sign of the phase under the LWE key");
    VERIF_REACH();
}
#endif

#ifdef H_DECODE
/* decoding grid: every phase within the decoding radius of a grid point decodes to it (real approxPhase / modSwitchToTorus32) */
#include "extracted.inc"
void h_decode(void) {
    const int32_t M = (int32_t)(uint32_t)(VERIF_MSIZE); int32_t in_mu; int32_t in_e;
    __CPROVER_assume(in_mu >= 0 && U32(in_mu) < U32(M));
    /* radius: strictly less than half a grid step minus the one-unit encoding slack */
    int64_t step_half = (int64_t)(4294967296.0 / (2.0 * (double)U32(M)));
    __CPROVER_assume((int64_t)in_e > -(step_half - 2) && (int64_t)in_e < step_half - 2);
    Torus32 enc = modSwitchToTorus32(in_mu, M);
    __CPROVER_assert(approxPhase((Torus32)(U32(enc) + U32(in_e)), M) == enc, "a phase within the decoding radius of the grid point mu/Msize decodes to exactly that grid point");
    VERIF_REACH();
}
#endif
