/* C03 / C07: encryption, decryption, key generation -- wiring and noise-parameter plumbing.
 * The samplers are declared-only draws (verif_samplers.h, assumed contract); dtot32 / gaussian32 / approxPhase are
 * ghost-recording monitors where the harness says so. */
#include "verif_prelude.h"
#include "verif_samplers.h"
#include "c_enc.h"
int32_t g_k;
/* small structural dimensions (k, kpl): symbolic up to CAP(x) in the proof, capped like everything else in the bounded arbiter */
#ifdef VERIF_BOUND
#define CAP(x) VERIF_BOUND
#else
#define CAP(x) (x)
#endif

#ifdef H_GAUSSIAN
static double m_d; static int n_dtot; static Torus32 m_ret;
Torus32 dtot32(double d) { m_d = d; n_dtot++; Torus32 r; m_ret = r; return r; }
#include "extracted.inc"
void h_gaussian32(void) {
    Torus32 in_msg; double in_sigma; __CPROVER_assume(in_sigma >= 0.0 && in_sigma <= 1.0);
    SAMPLERS_RESET(); n_dtot = 0;
    Torus32 r = gaussian32(in_msg, in_sigma);
    __CPROVER_assert(g_n_normal == 1 && g_n_uniform_t32 == 0 && g_n_uniform_int == 0, "exactly one normal draw");
    __CPROVER_assert(g_last_mean == 0.0 && g_last_sigma == in_sigma, "the draw is centred and uses the requested standard deviation unchanged");
    __CPROVER_assert(n_dtot == 1 && m_d == g_last_normal, "the drawn error is converted to the torus once");
    __CPROVER_assert(U32(r) == U32(in_msg) + U32(m_ret), "result = message + error (mod 1)");
    VERIF_REACH();
}
#endif

#ifdef H_ENCRYPT
static int n_g; static Torus32 g_msg, g_ret; static double g_sig;
Torus32 gaussian32(Torus32 message, double sigma) { n_g++; g_msg = message; g_sig = sigma; Torus32 r; g_ret = r; return r; }
static int n_dtot; static double m_d; static Torus32 m_ret;
Torus32 dtot32(double d) { m_d = d; n_dtot++; Torus32 r; m_ret = r; return r; }
#include "extracted.inc"
void h_lweSymEncrypt(void) {
    int32_t n; __CPROVER_assume(n >= 1 && n <= VERIF_NMAX);
    LweParams par; *(int32_t *)&par.n = n; LweKey key; key.params = &par; key.key = verif_alloc((size_t)n * sizeof(int32_t));
    LweSample res; res.a = verif_alloc((size_t)n * sizeof(Torus32));
    /* the IEEE product alpha*alpha is not decidable for symbolic alpha (see DESIGN 8.2): alpha is an enumerated instance */
    Torus32 in_msg; const double in_alpha = VERIF_ALPHA;
    int32_t gk; __CPROVER_assume(gk >= 0 && gk < n); g_k = gk; int32_t kk = key.key[g_k];
    SAMPLERS_RESET(); n_g = 0; n_dtot = 0;
#ifdef EXTERNAL_NOISE
    double in_noise; __CPROVER_assume(in_noise > -1.0 && in_noise < 1.0);
    lweSymEncryptWithExternalNoise(&res, in_msg, in_noise, in_alpha, &key);
    __CPROVER_assert(n_g == 0 && n_dtot == 1 && m_d == in_noise && g_n_normal == 0, "the given noise value is used, no fresh gaussian draw");
#else
    lweSymEncrypt(&res, in_msg, in_alpha, &key);
    __CPROVER_assert(n_g == 1 && g_msg == in_msg && g_sig == in_alpha, "one gaussian error of the requested standard deviation around the message");
#endif
    __CPROVER_assert(g_n_uniform_t32 == n, "one uniform torus draw per mask coefficient");
    __CPROVER_assert(res.current_variance == in_alpha * in_alpha, "variance annotation alpha^2");
    __CPROVER_assert(key.key[g_k] == kk, "key untouched");
    free(key.key); free(res.a);
    VERIF_REACH();
}
#endif

#ifdef H_KEYGEN
#include "extracted.inc"
void h_lweKeyGen(void) {
    int32_t n; __CPROVER_assume(n >= 1 && n <= VERIF_NMAX);
    LweParams par; *(int32_t *)&par.n = n; LweKey key; key.params = &par; key.key = verif_alloc((size_t)n * sizeof(int32_t));
    int32_t gk; __CPROVER_assume(gk >= 0 && gk < n); g_k = gk;
    SAMPLERS_RESET();
    lweKeyGen(&key);
    __CPROVER_assert(g_n_uniform_int == n && g_n_normal == 0 && g_n_uniform_t32 == 0, "one draw per key coefficient, from the integer sampler only");
    __CPROVER_assert(g_ui_lo == 0 && g_ui_hi == 1, "drawn from the uniform distribution on {0,1}");
    __CPROVER_assert(key.key[g_k] == 0 || key.key[g_k] == 1, "every key coefficient is a bit");
    free(key.key);
    VERIF_REACH();
}
#endif

#ifdef H_PAIRING
/* bounded stand-in: the two loops (encryption mask/b accumulation, phase) agree on sum a_i*s_i, for arbitrary integer keys */
static Torus32 g_err;
Torus32 gaussian32(Torus32 message, double sigma) { Torus32 e; g_err = e; return (Torus32)(U32(message) + U32(e)); }
Torus32 approxPhase(Torus32 phase, int32_t Msize) { return phase; }   /* not used here */
#include "extracted.inc"
void h_b_pairing(void) {
    const int32_t n = VERIF_BN;
    LweParams par; *(int32_t *)&par.n = n; LweKey key; key.params = &par; int32_t kk[VERIF_BN]; key.key = kk;
    LweSample res; Torus32 aa[VERIF_BN]; res.a = aa;
    Torus32 in_msg; double alpha = 0.0;
    SAMPLERS_RESET();
    lweSymEncrypt(&res, in_msg, alpha, &key);
    Torus32 ph = lwePhase(&res, &key);
    __CPROVER_assert(U32(ph) == U32(in_msg) + U32(g_err), "phase of a fresh encryption = message + the gaussian error, exactly, under the same key (any integer key)");
    /* noiseless trivial sample: phase == mu under every key */
    Torus32 mu; for (int i = 0; i < n; i++) aa[i] = 0; res.b = mu;
    __CPROVER_assert(lwePhase(&res, &key) == mu, "noiseless trivial sample has phase mu under every key");
    VERIF_REACH();
}
#endif

#ifdef H_DECRYPT
static int n_ph, n_ap; static const LweSample *p_s; static const LweKey *p_k; static Torus32 p_ret, a_in, a_ret; static int32_t a_M;
Torus32 lwePhase(const LweSample *sample, const LweKey *key) { n_ph++; p_s = sample; p_k = key; Torus32 r; p_ret = r; return r; }
Torus32 approxPhase(Torus32 phase, int32_t Msize) { n_ap++; a_in = phase; a_M = Msize; Torus32 r; a_ret = r; return r; }
static int n_enc; static LweSample *e_r; static Torus32 e_mu; static double e_alpha; static const LweKey *e_k;
void lweSymEncrypt(LweSample *result, Torus32 message, double alpha, const LweKey *key) { n_enc++; e_r = result; e_mu = message; e_alpha = alpha; e_k = key; }
#include "extracted.inc"
void h_decrypt_wiring(void) {
    LweSample s; LweKey k; int32_t in_M; __CPROVER_assume(in_M >= 2);
    n_ph = n_ap = n_enc = 0;
    Torus32 r = lweSymDecrypt(&s, &k, in_M);
    __CPROVER_assert(n_ph == 1 && p_s == &s && p_k == &k && n_ap == 1 && a_in == p_ret && a_M == in_M && r == a_ret, "lweSymDecrypt rounds the phase under the given key to the message grid 1/Msize");
    /* gate API */
    TFheGateBootstrappingSecretKeySet sk; TFheGateBootstrappingParameterSet ps; LweParams ip;
    *(double *)&ip.alpha_min = 0x1p-15; *(const LweParams **)&ps.in_out_params = &ip; sk.params = &ps; sk.lwe_key = &k;
    int32_t in_bit; LweSample ct;
    bootsSymEncrypt(&ct, in_bit, &sk);
    __CPROVER_assert(n_enc == 1 && e_r == &ct && e_k == &k && e_alpha == ip.alpha_min, "a fresh gate ciphertext is an LWE encryption under the LWE key with the input-key noise level");
    __CPROVER_assert(U32(e_mu) == (in_bit ? 0x20000000u : 0xE0000000u), "bit encoding +-1/8");
    n_ph = 0;
    int32_t d = bootsSymDecrypt(&ct, &sk);
    __CPROVER_assert(n_ph == 1 && p_s == &ct && p_k == &k && d == ((int32_t)p_ret > 0 ? 1 : 0), "decryption = sign of the phase under the LWE key");
    VERIF_REACH();
}
#endif

#ifdef H_DECODE
/* decoding grid: every phase within the decoding radius of a grid point decodes to it (real approxPhase / modSwitchToTorus32) */
#include "extracted.inc"
void h_decode(void) {
    const int32_t M = (int32_t)(uint32_t)(VERIF_MSIZE); int32_t in_mu; int32_t in_e;
    __CPROVER_assume(in_mu >= 0 && U32(in_mu) < U32(M));
    /* radius: strictly less than half a grid step minus the one-unit encoding slack */
    int64_t step_half = (int64_t)(4294967296.0 / (2.0 * (double)U32(M)));
    __CPROVER_assume((int64_t)in_e > -(step_half - 2) && (int64_t)in_e < step_half - 2);
    Torus32 enc = modSwitchToTorus32(in_mu, M);
    __CPROVER_assert(approxPhase((Torus32)(U32(enc) + U32(in_e)), M) == enc, "a phase within the decoding radius of the grid point mu/Msize decodes to exactly that grid point");
    VERIF_REACH();
}
#endif

/* ---------------- C07: rows of the bootstrapping key / TGSW / TLWE encryptions: which noise level reaches which sampler ---------------- */
#ifdef H_BKCREATE
/* tfhe_createLweBootstrappingKey: row i of the bootstrapping key is a TGSW encryption of key bit i with the ACCUMULATOR noise level,
 * the key-switching key is created from the extracted key towards the input key */
static int n_enc, n_enc_watched, bad; static const TGswKey *g_rk; static double g_alpha; static int32_t *g_kin; static TGswSample *g_rows; static int last_idx;
int32_t g_i;
void tGswSymEncryptInt(TGswSample *result, const int32_t message, double alpha, const TGswKey *key) {
    long idx = result - g_rows;
    if (key != g_rk || alpha != g_alpha || idx <= last_idx || message != g_kin[idx]) bad++;
    last_idx = (int)idx; n_enc++; if (idx == g_i) n_enc_watched++;
}
static LweKey *g_ek; static int n_newk, n_delk, s_ext, s_cks, seq; static const LweParams *nk_par;
LweKey *new_LweKey(const LweParams *params) { g_ek = verif_alloc(sizeof(LweKey)); nk_par = params; n_newk++; return g_ek; }
void delete_LweKey(LweKey *obj) { if (obj != g_ek) bad++; n_delk++; free(obj); }
static const TLweKey *x_src;
void tLweExtractKey(LweKey *result, const TLweKey *key) { if (result != g_ek || key != x_src) bad++; s_ext = ++seq; }
static LweKeySwitchKey *c_ks; static const LweKey *c_out;
void lweCreateKeySwitchKey(LweKeySwitchKey *result, const LweKey *in_key, const LweKey *out_key) { if (result != c_ks || in_key != g_ek || out_key != c_out) bad++; s_cks = ++seq; }
#include "extracted.inc"
void h_createBootstrappingKey(void) {
    int32_t n; __CPROVER_assume(n >= 1 && n <= VERIF_NMAX);
    LweParams ip; *(int32_t *)&ip.n = n; TLweParams tp; *(double *)&tp.alpha_min = 0x1p-25; *(double *)&ip.alpha_min = 0x1p-15;
    TGswParams gp; *(const TLweParams **)&gp.tlwe_params = &tp;
    LweKey kin; kin.params = &ip; kin.key = verif_alloc((size_t)n * sizeof(int32_t));
    TGswKey rk; rk.params = &gp;
    LweKeySwitchKey ksk; LweBootstrappingKey bk; *(const LweParams **)&bk.in_out_params = &ip; *(const TGswParams **)&bk.bk_params = &gp; bk.ks = &ksk;
    bk.bk = verif_alloc((size_t)n * sizeof(TGswSample));
    int32_t gi; __CPROVER_assume(gi >= 0 && gi < n); g_i = gi;
    g_rk = &rk; g_alpha = tp.alpha_min; g_kin = kin.key; g_rows = bk.bk; last_idx = -1; n_enc = n_enc_watched = bad = 0; n_newk = n_delk = s_ext = s_cks = seq = 0;
    x_src = &rk.tlwe_key; c_ks = &ksk; c_out = &kin;
    SAMPLERS_RESET();
    tfhe_createLweBootstrappingKey(&bk, &kin, &rk);
    __CPROVER_assert(bad == 0 && n_enc == n && n_enc_watched == 1, "row i of the bootstrapping key: one TGSW encryption of key bit i, under the TGSW key, with the accumulator noise level alpha_min of the TLWE parameters");
    __CPROVER_assert(n_newk == 1 && nk_par == &tp.extracted_lweparams && s_ext == 1 && s_cks == 2 && n_delk == 1, "key-switching key created from the extracted key (dimension k*N) towards the input key; temporary key released");
    free(kin.key); free(bk.bk);
    VERIF_REACH();
}
#endif

#ifdef H_TGSWENC
static int s_zero, s_add, seq, bad; static TGswSample *z_r; static double z_alpha; static const TGswKey *z_k; static TGswSample *a_r; static int32_t a_m; static const TGswParams *a_p;
void tGswEncryptZero(TGswSample *result, double alpha, const TGswKey *key) { z_r = result; z_alpha = alpha; z_k = key; s_zero = ++seq; }
void tGswAddMuIntH(TGswSample *result, const int32_t message, const TGswParams *params) { a_r = result; a_m = message; a_p = params; s_add = ++seq; }
#include "extracted.inc"
void h_tGswSymEncryptInt(void) {
    TGswSample res; TGswParams gp; TGswKey key; key.params = &gp; int32_t in_msg; double in_alpha; __CPROVER_assume(in_alpha >= 0.0 && in_alpha <= 1.0);
    seq = 0;
    tGswSymEncryptInt(&res, in_msg, in_alpha, &key);
    __CPROVER_assert(s_zero == 1 && z_r == &res && z_alpha == in_alpha && z_k == &key, "first an encryption of zero with the requested noise level under the key");
    __CPROVER_assert(s_add == 2 && a_r == &res && a_m == in_msg && a_p == &gp, "then message times the gadget is added (no further noise)");
    VERIF_REACH();
}
#endif

#ifdef H_TGSWZERO
static int n_calls, n_watched, bad, last; static TGswSample *g_res; static double g_alpha; static const TLweKey *g_key; int32_t g_i;
void tLweSymEncryptZero(TLweSample *result, double alpha, const TLweKey *key) {
    long idx = result - g_res->all_sample; if (alpha != g_alpha || key != g_key || idx <= last) bad++; last = (int)idx; n_calls++; if (idx == g_i) n_watched++; }
#include "extracted.inc"
void h_tGswEncryptZero(void) {
    int32_t kpl; __CPROVER_assume(kpl >= 1 && kpl <= CAP(4096));
    TGswParams gp; *(int32_t *)&gp.kpl = kpl; TGswKey key; key.params = &gp;
    TGswSample res; res.all_sample = verif_alloc((size_t)kpl * sizeof(TLweSample));
    double in_alpha; __CPROVER_assume(in_alpha >= 0.0 && in_alpha <= 1.0); int32_t gi; __CPROVER_assume(gi >= 0 && gi < kpl); g_i = gi;
    g_res = &res; g_alpha = in_alpha; g_key = &key.tlwe_key; n_calls = n_watched = bad = 0; last = -1;
    tGswEncryptZero(&res, in_alpha, &key);
    __CPROVER_assert(bad == 0 && n_calls == kpl && n_watched == 1, "every one of the (k+1)l rows is one TLWE encryption of zero with the same requested noise level under the TLWE key");
    free(res.all_sample);
    VERIF_REACH();
}
#endif

#ifdef H_TLWEZERO
/* tLweSymEncryptZero: N centred gaussian coefficients of the requested stdev in b, k uniform mask polynomials, b += a_i * s_i */
static int n_g, n_u, n_m, bad; static double g_alpha; static TLweSample *g_res; static const TLweKey *g_key;
Torus32 gaussian32(Torus32 message, double sigma) { if (message != 0 || sigma != g_alpha) bad++; n_g++; Torus32 r; return r; }
void torusPolynomialUniform(TorusPolynomial *result) { if (result != &g_res->a[n_u] || n_u != n_m) bad++; n_u++; }
void torusPolynomialAddMulRFFT(TorusPolynomial *result, const IntPolynomial *poly1, const TorusPolynomial *poly2) {
    if (result != g_res->b || poly1 != &g_key->key[n_m] || poly2 != &g_res->a[n_m] || n_u != n_m + 1) bad++; n_m++; }
#include "extracted.inc"
void h_tLweSymEncryptZero(void) {
    int32_t N, k; __CPROVER_assume(N >= 1 && N <= VERIF_NMAX && k >= 1 && k <= CAP(64));
    TLweParams tp; *(int32_t *)&tp.N = N; *(int32_t *)&tp.k = k; TLweKey key; key.params = &tp; key.key = verif_alloc((size_t)k * sizeof(IntPolynomial));
    TLweSample res; res.a = verif_alloc((size_t)(k + 1) * sizeof(TorusPolynomial)); res.b = res.a + k; res.b->coefsT = verif_alloc((size_t)N * sizeof(Torus32));
    const double in_alpha = VERIF_ALPHA;
    g_alpha = in_alpha; g_res = &res; g_key = &key; n_g = n_u = n_m = bad = 0;
    tLweSymEncryptZero(&res, in_alpha, &key);
    __CPROVER_assert(bad == 0 && n_g == N, "one centred gaussian error of the requested standard deviation per coefficient of b, nothing else added to it");
    __CPROVER_assert(n_u == k && n_m == k, "each of the k mask polynomials is drawn uniformly and then multiplied by its own key polynomial into b, in this order");
    __CPROVER_assert(res.current_variance == in_alpha * in_alpha, "variance annotation alpha^2");
    free(res.b->coefsT); free(res.a); free(key.key);
    VERIF_REACH();
}
#endif

#ifdef H_KSCREATE
/* lweCreateKeySwitchKey on a small concrete shape (bounded stand-in, labelled): the table is built by the harness like the real
 * constructor does; row (i,j,0) is the noiseless zero sample, row (i,j,h>=1) encrypts (s_i*h)*2^(32-(j+1)basebit) with noise entry
 * of the recentred gaussian vector (WHICH entry, and the recentring arithmetic in doubles, are not decided: IEEE sums/divisions, DESIGN 8.2), all drawn with the output key's alpha_min */
#define B_n VERIF_KS_N
#define B_T VERIF_KS_T
#define B_BB VERIF_KS_BB
#define B_BASE (1 << B_BB)
#define SIZEKS (B_n * B_T * (B_BASE - 1))
static LweSample rows[B_n * B_T * B_BASE]; static LweSample *l1[B_n * B_T]; static LweSample **l0[B_n];
static double draws[SIZEKS + 1]; static int nd; static int bad, n_triv, n_enc; static const LweKey *g_out; static double g_alpha;
static Torus32 e_msg[SIZEKS + 1]; static double e_noise[SIZEKS + 1]; static long e_row[SIZEKS + 1];
#undef verif_normal_draw
static double ks_draw(verif_normal_t *d) { double x; __CPROVER_assume(x > -1.0 && x < 1.0); if (d->mean != 0.0 || d->sigma != g_alpha) bad++; if (nd <= SIZEKS) draws[nd] = x; nd++; return x; }
#define verif_normal_draw ks_draw
void lweNoiselessTrivial(LweSample *result, Torus32 mu, const LweParams *params) {
    long r = result - rows; if (r < 0 || r >= B_n * B_T * B_BASE || r % B_BASE != 0 || mu != 0 || params != g_out->params) bad++; n_triv++; }
void lweSymEncryptWithExternalNoise(LweSample *result, Torus32 message, double noise, double alpha, const LweKey *key) {
    if (alpha != g_alpha || key != g_out) bad++;
    if (n_enc <= SIZEKS) { e_msg[n_enc] = message; e_noise[n_enc] = noise; e_row[n_enc] = result - rows; }
    n_enc++; }
#include "extracted.inc"
void h_b_createKeySwitchKey(void) {
    for (int p = 0; p < B_n * B_T; p++) l1[p] = rows + B_BASE * p;
    for (int p = 0; p < B_n; p++) l0[p] = l1 + B_T * p;
#ifdef KS_ALPHA_SYMBOLIC
    double a_sym; __CPROVER_assume(a_sym >= 0.0 && a_sym <= 1.0);   /* every noise level, 0 included: the rows must be masked encryptions at every level */
    LweParams op; *(double *)&op.alpha_min = a_sym; *(int32_t *)&op.n = 3;
#else
    LweParams op; *(double *)&op.alpha_min = VERIF_ALPHA; *(int32_t *)&op.n = 3;
#endif
    LweParams ipar; *(int32_t *)&ipar.n = B_n; *(double *)&ipar.alpha_min = 0.25;
    LweKeySwitchKey ks; ks.n = B_n; ks.t = B_T; ks.basebit = B_BB; ks.base = B_BASE; ks.out_params = &op; ks.ks0_raw = rows; ks.ks1_raw = l1; ks.ks = l0;
    int32_t inkey[B_n]; LweKey in; in.params = &ipar; in.key = inkey; LweKey out; out.params = &op;
    /* history independence: an earlier key-switching key with another noise level may have been created in this process */
    { int in_has_first; if (in_has_first) { LweParams op0; *(double *)&op0.alpha_min = 0.25; *(int32_t *)&op0.n = 3; LweKey out0; out0.params = &op0;
        g_out = &out0; g_alpha = 0.25; nd = bad = n_triv = n_enc = 0; ks.out_params = &op0; lweCreateKeySwitchKey(&ks, &in, &out0); ks.out_params = &op; } }
    g_out = &out; g_alpha = op.alpha_min; nd = bad = n_triv = n_enc = 0;
    lweCreateKeySwitchKey(&ks, &in, &out);
    __CPROVER_assert(nd == SIZEKS && bad == 0, "n*t*(base-1) centred gaussian draws, all with the OUTPUT key's alpha_min; rows use that alpha and the output key");
    __CPROVER_assert(n_triv == B_n * B_T && n_enc == SIZEKS, "one noiseless zero row per (i,j), one encryption per (i,j,h>=1)");
    int e = 0;
    for (int i = 0; i < B_n; i++) for (int j = 0; j < B_T; j++) for (int h = 1; h < B_BASE; h++) {
        __CPROVER_assert(e_row[e] == (i * B_T + j) * B_BASE + h, "row (i,j,h) of the contiguous key array");
        __CPROVER_assert(U32(e_msg[e]) == (U32(inkey[i]) * (uint32_t)h) * (1u << (32 - (j + 1) * B_BB)), "row (i,j,h) encrypts h*s_i/base^(j+1)");
        e++;
    }
    VERIF_REACH();
}
#endif

/* ---------------- C03: TLWE encryption / phase / decryption wiring.  The ring products (torusPolynomialAddMulR / SubMulR = FFT) are
 * monitors: with the ASSUMED contract "they equal the exact negacyclic multiply-accumulate" the wiring below is b = sum a_i*s_i + e + m and
 * phase = b - sum a_i*s_i, decryption = coefficient-wise rounding of the phase. ---------------- */
#ifdef H_TLWE_ENC
static int s_zero, seq; static TLweSample *z_r; static double z_alpha; static const TLweKey *z_k;
void tLweSymEncryptZero(TLweSample *result, double alpha, const TLweKey *key) { z_r = result; z_alpha = alpha; z_k = key; s_zero = ++seq; }
#include "extracted.inc"
void h_tLweSymEncrypt(void) {
    int32_t N; __CPROVER_assume(N >= 1 && N <= VERIF_NMAX);
    TLweParams tp; *(int32_t *)&tp.N = N; TLweKey key; key.params = &tp;
    TorusPolynomial bp; bp.coefsT = verif_alloc((size_t)N * sizeof(Torus32)); TLweSample res; res.b = &bp;
    TorusPolynomial msg; msg.coefsT = verif_alloc((size_t)N * sizeof(Torus32));
    double in_alpha; __CPROVER_assume(in_alpha >= 0.0 && in_alpha <= 1.0);
    int32_t gk; __CPROVER_assume(gk >= 0 && gk < N); g_k = gk; Torus32 b0 = bp.coefsT[g_k], m0 = msg.coefsT[g_k], b00 = bp.coefsT[0];
    seq = 0;
#ifdef ENC_T
    Torus32 in_m;
    tLweSymEncryptT(&res, in_m, in_alpha, &key);
    __CPROVER_assert(s_zero == 1 && z_r == &res && z_alpha == in_alpha && z_k == &key, "an encryption of zero with the requested noise level first");
    __CPROVER_assert(U32(bp.coefsT[g_k]) == U32(b0) + (g_k == 0 ? U32(in_m) : 0u), "then the constant message is added to coefficient 0 of b only");
#else
    tLweSymEncrypt(&res, &msg, in_alpha, &key);
    __CPROVER_assert(s_zero == 1 && z_r == &res && z_alpha == in_alpha && z_k == &key, "an encryption of zero with the requested noise level first");
    __CPROVER_assert(U32(bp.coefsT[g_k]) == U32(b0) + U32(m0), "then the message polynomial is added to b, coefficient by coefficient");
    __CPROVER_assert(msg.coefsT[g_k] == m0, "message untouched");
#endif
    free(bp.coefsT); free(msg.coefsT);
    VERIF_REACH();
}
#endif

#ifdef H_TLWE_PHASE
static int s_copy, n_sub, bad, seq; static TorusPolynomial *c_r; static const TorusPolynomial *c_s; static const TLweSample *p_s; static const TLweKey *p_k; static TorusPolynomial *p_ph;
void torusPolynomialCopy(TorusPolynomial *result, const TorusPolynomial *sample) { c_r = result; c_s = sample; s_copy = ++seq; if (n_sub != 0) bad++; }
void torusPolynomialSubMulRFFT(TorusPolynomial *result, const IntPolynomial *poly1, const TorusPolynomial *poly2) {
    if (result != p_ph || poly1 != &p_k->key[n_sub] || poly2 != &p_s->a[n_sub] || s_copy != 1) bad++; n_sub++; }
/* approxPhase as a function known only on the watched value (one-point uninterpreted function) */
static Torus32 w_in, w_out; static int32_t w_M; static int n_ap, ap_bad;
Torus32 approxPhase(Torus32 phase, int32_t Msize) { n_ap++; if (Msize != w_M) ap_bad++; Torus32 r; if (phase == w_in) r = w_out; return r; }
static int n_new, n_del; static TorusPolynomial *g_tmp;
TorusPolynomial *new_TorusPolynomial(const int32_t N) { g_tmp = verif_alloc(sizeof(TorusPolynomial)); g_tmp->coefsT = verif_alloc((size_t)N * sizeof(Torus32)); n_new++; return g_tmp; }
void delete_TorusPolynomial(TorusPolynomial *obj) { if (obj != g_tmp) bad++; n_del++; free(obj->coefsT); free(obj); }
#include "extracted.inc"
void h_tLwePhase(void) {
    int32_t k; __CPROVER_assume(k >= 1 && k <= CAP(64));
    TLweParams tp; *(int32_t *)&tp.k = k; TLweKey key; key.params = &tp; key.key = verif_alloc((size_t)k * sizeof(IntPolynomial));
    TLweSample s; s.a = verif_alloc((size_t)(k + 1) * sizeof(TorusPolynomial)); s.b = s.a + k; TorusPolynomial ph;
    p_s = &s; p_k = &key; p_ph = &ph; s_copy = n_sub = bad = seq = 0;
    tLwePhase(&ph, &s, &key);
    __CPROVER_assert(s_copy == 1 && c_r == &ph && c_s == s.b, "phase starts as b");
    __CPROVER_assert(n_sub == k && bad == 0, "then a_i * s_i is subtracted once for every i < k, with the i-th key polynomial and the i-th mask polynomial");
    free(s.a); free(key.key);
    VERIF_REACH();
}
void h_tLweApproxPhase(void) {
    int32_t N; __CPROVER_assume(N >= 1 && N <= VERIF_NMAX);
    TorusPolynomial ph, msg; ph.coefsT = verif_alloc((size_t)N * sizeof(Torus32)); msg.coefsT = verif_alloc((size_t)N * sizeof(Torus32));
    int32_t gk; __CPROVER_assume(gk >= 0 && gk < N); g_k = gk; int32_t in_M; __CPROVER_assume(in_M >= 2);
    Torus32 out; w_in = ph.coefsT[g_k]; w_out = out; w_M = in_M; n_ap = ap_bad = 0;
    tLweApproxPhase(&msg, &ph, in_M, N);
    __CPROVER_assert(msg.coefsT[g_k] == w_out && ap_bad == 0, "every coefficient of the message is the rounding of the same coefficient of the phase to the grid 1/Msize");
    __CPROVER_assert(ph.coefsT[g_k] == w_in, "phase untouched");
    free(ph.coefsT); free(msg.coefsT);
    VERIF_REACH();
}
#endif

#ifdef H_TLWE_DEC
static int s_ph, s_ap, seq, n_new, n_del, bad; static TorusPolynomial *p_r, *a_m; static const TorusPolynomial *a_p; static const TLweSample *p_s; static const TLweKey *p_k; static int32_t a_M, a_N;
void tLwePhase(TorusPolynomial *phase, const TLweSample *sample, const TLweKey *key) { p_r = phase; p_s = sample; p_k = key; s_ph = ++seq; Torus32 v; phase->coefsT[0] = v; }
void tLweApproxPhase(TorusPolynomial *message, const TorusPolynomial *phase, int32_t Msize, int32_t N) { a_m = message; a_p = phase; a_M = Msize; a_N = N; s_ap = ++seq; }
static Torus32 ap_in, ap_out; static int32_t ap_M; static int n_ap;
Torus32 approxPhase(Torus32 phase, int32_t Msize) { n_ap++; ap_in = phase; ap_M = Msize; Torus32 r; ap_out = r; return r; }
static TorusPolynomial *g_tmp; static int32_t new_N;
TorusPolynomial *new_TorusPolynomial(const int32_t N) { g_tmp = verif_alloc(sizeof(TorusPolynomial)); g_tmp->coefsT = verif_alloc((size_t)N * sizeof(Torus32)); new_N = N; n_new++; return g_tmp; }
void delete_TorusPolynomial(TorusPolynomial *obj) { if (obj != g_tmp) bad++; n_del++; free(obj->coefsT); free(obj); }
#include "extracted.inc"
void h_tLweSymDecrypt(void) {
    int32_t N; __CPROVER_assume(N >= 1 && N <= VERIF_NMAX);
    TLweParams tp; *(int32_t *)&tp.N = N; TLweKey key; key.params = &tp; TLweSample s; TorusPolynomial res; res.coefsT = verif_alloc((size_t)N * sizeof(Torus32));
    int32_t in_M; __CPROVER_assume(in_M >= 2);
    seq = n_new = n_del = bad = n_ap = 0;
    tLweSymDecrypt(&res, &s, &key, in_M);
    __CPROVER_assert(s_ph == 1 && p_r == &res && p_s == &s && p_k == &key, "first the phase b - sum a_i*s_i under the given key");
    __CPROVER_assert(s_ap == 2 && a_m == &res && a_p == &res && a_M == in_M && a_N == N, "then every coefficient is rounded to the grid 1/Msize");
    seq = 0;
    Torus32 r = tLweSymDecryptT(&s, &key, in_M);
    __CPROVER_assert(n_new == 1 && new_N == N && s_ph == 1 && p_r == g_tmp && p_s == &s && p_k == &key, "constant message: phase polynomial of N coefficients under the given key");
    __CPROVER_assert(n_ap == 1 && ap_M == in_M && r == ap_out && n_del == 1 && bad == 0, "its coefficient 0 is rounded to the grid 1/Msize and returned; temporary released");
    free(res.coefsT);
    VERIF_REACH();
}
#endif

#ifdef H_TLWEKEYGEN
/* tLweKeyGen (k x N draws from {0,1}) and tGswKeyGen (= tLweKeyGen on the embedded TLWE key) */
int32_t g_i;
#include "extracted.inc"
void h_tLweKeyGen(void) {
    int32_t N; __CPROVER_assume(N >= 1 && N <= CAP(65536));
    TLweParams tp; *(int32_t *)&tp.N = N; *(int32_t *)&tp.k = VERIF_K;
    IntPolynomial kp[VERIF_K]; for (int i = 0; i < VERIF_K; i++) { *(int32_t *)&kp[i].N = N; kp[i].coefs = verif_alloc((size_t)N * sizeof(int32_t)); }
    TGswParams gp; *(const TLweParams **)&gp.tlwe_params = &tp;
    TGswKey gk; gk.params = &gp; *(const TLweParams **)&gk.tlwe_params = &tp; gk.key = kp; *(const TLweParams **)&gk.tlwe_key.params = &tp; gk.tlwe_key.key = kp;
    int32_t gi, gc; __CPROVER_assume(gi >= 0 && gi < VERIF_K && gc >= 0 && gc < N); g_i = gi; g_k = gc;
    SAMPLERS_RESET();
#ifdef VIA_TGSW
    tGswKeyGen(&gk);
#else
    tLweKeyGen(&gk.tlwe_key);
#endif
    __CPROVER_assert(g_n_uniform_int == VERIF_K * N && g_n_normal == 0 && g_n_uniform_t32 == 0, "one draw per key coefficient, from the integer sampler only");
    __CPROVER_assert(g_ui_lo == 0 && g_ui_hi == 1, "drawn from the uniform distribution on {0,1}");
    __CPROVER_assert(kp[g_i].coefs[g_k] == 0 || kp[g_i].coefs[g_k] == 1, "every ring key coefficient is a bit");
    for (int i = 0; i < VERIF_K; i++) free(kp[i].coefs);
    VERIF_REACH();
}
#endif

#ifdef H_TGSWWRAP
/* tGswSymEncrypt = tGswEncryptZero then += message*H;  tGswEncryptB = tGswEncryptZero then += H iff the bit is 1 */
static int n_zero, n_addmu, n_addh, order_bad; static const void *z_res, *z_key, *m_res, *m_msg, *m_par, *h_res, *h_par; static double z_alpha;
void tGswEncryptZero(TGswSample *result, double alpha, const TGswKey *key) { if (n_addmu || n_addh) order_bad = 1; n_zero++; z_res = result; z_alpha = alpha; z_key = key; }
void tGswAddMuH(TGswSample *result, const IntPolynomial *message, const TGswParams *params) { if (n_zero != 1) order_bad = 1; n_addmu++; m_res = result; m_msg = message; m_par = params; }
void tGswAddH(TGswSample *result, const TGswParams *params) { if (n_zero != 1) order_bad = 1; n_addh++; h_res = result; h_par = params; }
#include "extracted.inc"
void h_tGswWrappers(void) {
    static TGswSample res; static IntPolynomial msg; static TGswParams gp; TGswKey key; key.params = &gp;
    double alpha; __CPROVER_assume(alpha >= 0.0 && alpha <= 1.0);
    n_zero = n_addmu = n_addh = order_bad = 0;
    tGswSymEncrypt(&res, &msg, alpha, &key);
    __CPROVER_assert(n_zero == 1 && z_res == (const void *)&res && z_alpha == alpha && z_key == (const void *)&key, "tGswSymEncrypt: one fresh encryption of zero with the requested noise level and key, into the result");
    __CPROVER_assert(n_addmu == 1 && n_addh == 0 && !order_bad && m_res == (const void *)&res && m_msg == (const void *)&msg && m_par == (const void *)&gp, "tGswSymEncrypt: then the message times the gadget is added once, with the key's parameters");
    int32_t bit; __CPROVER_assume(bit == 0 || bit == 1);      /* the message of tGswEncryptB is a bit */
    n_zero = n_addmu = n_addh = order_bad = 0;
    tGswEncryptB(&res, bit, alpha, &key);
    __CPROVER_assert(n_zero == 1 && z_res == (const void *)&res && z_alpha == alpha && z_key == (const void *)&key, "tGswEncryptB: one fresh encryption of zero with the requested noise level and key");
    __CPROVER_assert(n_addmu == 0 && !order_bad && n_addh == (bit == 1 ? 1 : 0) && (bit != 1 || (h_res == (const void *)&res && h_par == (const void *)&gp)), "tGswEncryptB: the gadget is added exactly when the bit is 1");
    VERIF_REACH();
}
#endif

#ifdef H_KEYSETGEN
/* new_random_gate_bootstrapping_secret_keyset: fresh LWE key and ring key of the parameter set's own dimensions, both generated,
 * the bootstrapping key built from exactly these two keys and the set's key-switch shape, its FFT image, all five stored */
enum { E_NEWLWE = 1, E_GENLWE, E_NEWTGSW, E_GENTGSW, E_NEWBK, E_CREATEBK, E_NEWFFT };
static int ev[12]; static int n_ev; static void evt(int e) { if (n_ev < 12) ev[n_ev] = e; n_ev++; }
static LweKey o_lwe; static TGswKey o_tgsw; static LweBootstrappingKey o_bk; static char o_fft;
static const void *a_lwe_par, *a_tgsw_par, *a_genlwe, *a_gentgsw, *a_bk_io, *a_bk_bp, *a_c_bk, *a_c_lwe, *a_c_tgsw, *a_fft_bk; static int32_t a_bk_t, a_bk_bb;
LweKey *new_LweKey(const LweParams *params) { evt(E_NEWLWE); a_lwe_par = params; return &o_lwe; }
void lweKeyGen(LweKey *result) { evt(E_GENLWE); a_genlwe = result; }
TGswKey *new_TGswKey(const TGswParams *params) { evt(E_NEWTGSW); a_tgsw_par = params; return &o_tgsw; }
void tGswKeyGen(TGswKey *result) { evt(E_GENTGSW); a_gentgsw = result; }
LweBootstrappingKey *new_LweBootstrappingKey(const int32_t ks_t, const int32_t ks_basebit, const LweParams *in_out_params, const TGswParams *bk_params) {
    evt(E_NEWBK); a_bk_t = ks_t; a_bk_bb = ks_basebit; a_bk_io = in_out_params; a_bk_bp = bk_params; return &o_bk; }
void tfhe_createLweBootstrappingKey(LweBootstrappingKey *bk, const LweKey *key_in, const TGswKey *rgsw_key) { evt(E_CREATEBK); a_c_bk = bk; a_c_lwe = key_in; a_c_tgsw = rgsw_key; }
LweBootstrappingKeyFFT *new_LweBootstrappingKeyFFT(const LweBootstrappingKey *bk) { evt(E_NEWFFT); a_fft_bk = bk; return (LweBootstrappingKeyFFT *)&o_fft; }
#include "extracted.inc"
static int pos(int e) { int p = -1; for (int i = 0; i < 12; i++) if (i < n_ev && ev[i] == e) p = i; return p; }
void h_keysetgen(void) {
    static LweParams io; static TGswParams gp; TFheGateBootstrappingParameterSet ps; int32_t t, bb;
    *(int32_t *)&ps.ks_t = t; *(int32_t *)&ps.ks_basebit = bb; *(const LweParams **)&ps.in_out_params = &io; *(const TGswParams **)&ps.tgsw_params = &gp;
    n_ev = 0;
    TFheGateBootstrappingSecretKeySet *sk = new_random_gate_bootstrapping_secret_keyset(&ps);
    __CPROVER_assert(n_ev == 7, "key-set generation: each of the seven steps exactly once");
    __CPROVER_assert(a_lwe_par == (const void *)&io && a_genlwe == (const void *)&o_lwe && pos(E_NEWLWE) < pos(E_GENLWE), "a fresh LWE key of the set's LWE parameters is generated");
    __CPROVER_assert(a_tgsw_par == (const void *)&gp && a_gentgsw == (const void *)&o_tgsw && pos(E_NEWTGSW) < pos(E_GENTGSW), "a fresh ring key of the set's TGSW parameters is generated");
    __CPROVER_assert(a_bk_t == t && a_bk_bb == bb && a_bk_io == (const void *)&io && a_bk_bp == (const void *)&gp, "the bootstrapping key has the set's key-switch shape and parameters");
    __CPROVER_assert(a_c_bk == (const void *)&o_bk && a_c_lwe == (const void *)&o_lwe && a_c_tgsw == (const void *)&o_tgsw && pos(E_CREATEBK) > pos(E_GENLWE) && pos(E_CREATEBK) > pos(E_GENTGSW) && pos(E_CREATEBK) > pos(E_NEWBK),
                     "the bootstrapping key is filled from exactly the two keys just generated, after both were generated");
    __CPROVER_assert(a_fft_bk == (const void *)&o_bk && pos(E_NEWFFT) > pos(E_CREATEBK), "the FFT image is taken of the filled bootstrapping key");
    __CPROVER_assert(sk->params == &ps && sk->lwe_key == &o_lwe && sk->tgsw_key == &o_tgsw && sk->cloud.params == &ps && sk->cloud.bk == &o_bk && sk->cloud.bkFFT == (const LweBootstrappingKeyFFT *)&o_fft,
                     "the key set holds the parameters, both secret keys and the cloud part built from them");
    free(sk);
    VERIF_REACH();
}
#endif

#ifdef H_TGSWDEC
/* tGswSymDecrypt: the indicator 1/Msize is decomposed once; for every i < l the phase of row (k, i) -- the LAST block -- is computed with the
 * key's TLWE key and accumulated with digit polynomial i; every coefficient of the sum is rounded to the message grid of the SAME Msize;
 * the three temporaries are released.  N symbolic (loop contracts), l = VERIF_L enumerated.  Monitors: allocation, modSwitch*, clear,
 * decomposition (assumed from C12: the digits of a zero coefficient are zero), tLwePhase, torusPolynomialAddMulR (assumed exact ring product). */
#ifndef VERIF_L
#define VERIF_L 2
#endif
#ifndef VERIF_K
#define VERIF_K 1
#endif
int32_t n_phase, n_mul, n_ms, bad, g_wout; Torus32 g_seen_phase; int32_t in_Msize;
static TorusPolynomial o_tp[2]; static int n_newtp, n_deltp, n_newip, n_delip; static IntPolynomial o_dec[VERIF_L]; static int32_t a_N;
TorusPolynomial *new_TorusPolynomial(const int32_t N) { if (N != a_N || n_newtp >= 2) bad++; TorusPolynomial *p = &o_tp[n_newtp < 2 ? n_newtp : 1]; *(int32_t *)&p->N = N; p->coefsT = verif_alloc((size_t)N * sizeof(Torus32)); n_newtp++; return p; }
void delete_TorusPolynomial(TorusPolynomial *p) { if (p != &o_tp[0] && p != &o_tp[1]) bad++; n_deltp++; }      /* storage is released by the harness (it is inspected after the call) */
#define DEC_ALLOC(q) { *(int32_t *)&o_dec[q].N = N; o_dec[q].coefs = verif_alloc((size_t)N * sizeof(int32_t)); }
IntPolynomial *new_IntPolynomial_array(int32_t nbelts, const int32_t N) { if (nbelts != VERIF_L || N != a_N) bad++; n_newip++;
    DEC_ALLOC(0)
#if VERIF_L >= 2
    DEC_ALLOC(1)
#endif
#if VERIF_L >= 3
    DEC_ALLOC(2)
#endif
#if VERIF_L >= 4
    DEC_ALLOC(3)
#endif
    return o_dec; }
void delete_IntPolynomial_array(int32_t nbelts, IntPolynomial *obj) { if (nbelts != VERIF_L || obj != o_dec) bad++; n_delip++; }
static int n_to, n_clear, n_dec, seq, s_dec, s_clear2; static Torus32 g_indic;
Torus32 modSwitchToTorus32(int32_t mu, int32_t Msize) { if (mu != 1 || Msize != in_Msize) bad++; n_to++; return g_indic; }
void torusPolynomialClear(TorusPolynomial *r) { if (r != &o_tp[0]) bad++; n_clear++; r->coefsT[0] = 0; if (n_clear == 2) s_clear2 = ++seq; }
static const TGswParams *x_gp;
#define DEC_ZERO(q) __CPROVER_array_set(result[q].coefs, 0);
void tGswTorus32PolynomialDecompH(IntPolynomial *result, const TorusPolynomial *sample, const TGswParams *params) {
    if (result != o_dec || sample != &o_tp[0] || params != x_gp || n_clear != 1 || sample->coefsT[0] != g_indic) bad++;     /* cleared, then coefficient 0 = 1/Msize */
    n_dec++; s_dec = ++seq;
    DEC_ZERO(0)
#if VERIF_L >= 2
    DEC_ZERO(1)
#endif
#if VERIF_L >= 3
    DEC_ZERO(2)
#endif
#if VERIF_L >= 4
    DEC_ZERO(3)
#endif
}
static const TLweSample *x_lastblock; static const TLweKey *x_tk;
void tLwePhase(TorusPolynomial *phase, const TLweSample *sample, const TLweKey *key) { if (phase != &o_tp[1] || sample != x_lastblock + n_phase || key != x_tk || n_mul != n_phase) bad++; n_phase++; }
void torusPolynomialAddMulR(TorusPolynomial *result, const IntPolynomial *poly1, const TorusPolynomial *poly2) { if (result != &o_tp[0] || poly1 != o_dec + n_mul || poly2 != &o_tp[1] || n_phase != n_mul + 1 || n_clear != 2) bad++; n_mul++; }
int32_t modSwitchFromTorus32(Torus32 phase, int32_t Msize) { if (Msize != in_Msize) bad++; int32_t r; if (n_ms == g_k) { g_seen_phase = phase; r = g_wout; } n_ms++; return r; }
#include "extracted.inc"
void h_tGswSymDecrypt(void) {
    int32_t N; __CPROVER_assume(N >= 1 && N <= VERIF_NMAX); a_N = N;
    TLweParams tp; *(int32_t *)&tp.N = N; *(int32_t *)&tp.k = VERIF_K; TGswParams gp; *(const TLweParams **)&gp.tlwe_params = &tp; *(int32_t *)&gp.l = VERIF_L; x_gp = &gp;
    static TLweSample rows[(VERIF_K + 1) * VERIF_L]; static TLweSample *blocs[VERIF_K + 1]; for (int b = 0; b <= VERIF_K; b++) blocs[b] = rows + b * VERIF_L;
    TGswSample smp; smp.all_sample = rows; smp.bloc_sample = blocs; x_lastblock = blocs[VERIF_K];
    TGswKey key; key.params = &gp; x_tk = &key.tlwe_key;
    IntPolynomial res; *(int32_t *)&res.N = N; res.coefs = verif_alloc((size_t)N * sizeof(int32_t));
    int32_t ms, gk, wo; Torus32 ind; __CPROVER_assume(ms >= 2 && gk >= 0 && gk < N); in_Msize = ms; g_k = gk; g_wout = wo; g_indic = ind;
    n_phase = n_mul = n_ms = bad = 0; n_newtp = n_deltp = n_newip = n_delip = n_to = n_clear = n_dec = seq = s_dec = s_clear2 = 0;
    tGswSymDecrypt(&res, &smp, &key, ms);
    __CPROVER_assert(bad == 0 && n_to == 1 && n_dec == 1 && n_clear == 2 && s_dec < s_clear2, "the indicator 1/Msize (coefficient 0 of a cleared polynomial) is decomposed once, then the accumulator is cleared again");
    __CPROVER_assert(n_phase == VERIF_L && n_mul == VERIF_L, "for every i < l: phase of row (k, i) of the LAST block under the key's TLWE key, accumulated with digit polynomial i");
    __CPROVER_assert(n_ms == N && res.coefs[g_k] == g_wout && g_seen_phase == o_tp[0].coefsT[g_k], "every coefficient of the message is the rounding of the same coefficient of the accumulated phase to the grid of the Msize given");
    __CPROVER_assert(n_newtp == 2 && n_deltp == 2 && n_newip == 1 && n_delip == 1, "the three temporaries are released");
    free(o_tp[0].coefsT); free(o_tp[1].coefsT); free(res.coefs);
    free(o_dec[0].coefs);
#if VERIF_L >= 2
    free(o_dec[1].coefs);
#endif
#if VERIF_L >= 3
    free(o_dec[2].coefs);
#endif
#if VERIF_L >= 4
    free(o_dec[3].coefs);
#endif
    VERIF_REACH();
}
#endif

#ifdef H_KSCREATE_U
/* lweCreateKeySwitchKey, UNBOUNDED in n (loop contracts on all five loops), (t, basebit) enumerated, one watched index g_i (symbolic):
 * result->ks[g_i] points to its own row blocks B, every other ks[i] to the blocks A (__CPROVER_array_set).  Decides for every n and g_i:
 * n*t*(base-1) centred gaussian draws with the OUTPUT key's alpha_min; the noise array is indexed inside its bounds at every step
 * (index = (i*t + j)*(base-1) + h-1); for index g_i every row (j,0) becomes the noiseless zero sample and every row (j,h>=1) is encrypted
 * exactly once, with message h*s_i*2^(32-(j+1)basebit), the output key and that alpha; no other iteration touches the rows of g_i;
 * all other writes stay inside their own block.  Which noise entry goes to which row, and the recentring in doubles, are not decided. */
#define T_ VERIF_KS_T
#define BB_ VERIF_KS_BB
#define BASE_ (1 << BB_)
#include "ksc.inc"          /* generated per (t, basebit): KSC_BLOCKS(M) = M(0) .. M(t-1);  KSC_ROWS(M) = M(j,d) for all j < t, 1 <= d < base;  KSC_MASK(j,h) */
#include "c_ksc.h"
static LweSample *rowA[T_], *rowB[T_];
int32_t kc_bad, kc_trivB, kc_encB, kc_nd, g_i, kc_key; uint64_t kc_hit; static const LweKey *g_out; static double g_alpha;
#undef verif_normal_draw
static double ksu_draw(verif_normal_t *d) { double x; __CPROVER_assume(x > -1.0 && x < 1.0); if (d->mean != 0.0 || d->sigma != g_alpha) kc_bad++; kc_nd++; return x; }
#define verif_normal_draw ksu_draw
#define KT_B(j) if (result == &rowB[j][0]) { found = 1; kc_trivB++; }
#define KT_A(j) if (result == &rowA[j][0]) found = 1;
void lweNoiselessTrivial(LweSample *result, Torus32 mu, const LweParams *params) {
    int found = 0;
    KSC_BLOCKS(KT_B)
    KSC_BLOCKS(KT_A)
    if (!found || mu != 0 || params != g_out->params) kc_bad++; }
#define KE_B(j, d) if (result == &rowB[j][d]) { found = 1; kc_encB++; if (message != (Torus32)(((uint32_t)kc_key * (uint32_t)(d)) * (1u << (32 - ((j) + 1) * BB_))) || ((kc_hit >> ((j) * BASE_ + (d))) & 1u)) kc_bad++; kc_hit |= (uint64_t)1 << ((j) * BASE_ + (d)); }
#define KE_A(j, d) if (result == &rowA[j][d]) found = 1;
void lweSymEncryptWithExternalNoise(LweSample *result, Torus32 message, double noise, double alpha, const LweKey *key) {
    int found = 0;
    KSC_ROWS(KE_B)
    KSC_ROWS(KE_A)
    if (!found || alpha != g_alpha || key != g_out) kc_bad++; }
#include "extracted.inc"
void h_createKeySwitchKey_unbounded(void) {
#ifdef VERIF_BOUND
    int32_t n; __CPROVER_assume(n >= 1 && n <= VERIF_BOUND);    /* bounded arbiter */
#else
    int32_t n; __CPROVER_assume(n >= 1 && n <= 1000000);       /* n*t*(base-1) must fit the int32_t the function computes it in */
#endif
#define KC_ALLOC(j) rowA[j] = verif_alloc((size_t)BASE_ * sizeof(LweSample)); rowB[j] = verif_alloc((size_t)BASE_ * sizeof(LweSample));
    KSC_BLOCKS(KC_ALLOC)
    LweSample ***tab = verif_alloc((size_t)n * sizeof(LweSample **));
    __CPROVER_array_set(tab, (LweSample **)rowA);
    int32_t gi; __CPROVER_assume(gi >= 0 && gi < n); g_i = gi; tab[gi] = (LweSample **)rowB;
    double a_sym; __CPROVER_assume(a_sym >= 0.0 && a_sym <= 1.0);
    LweParams op; *(double *)&op.alpha_min = a_sym; *(int32_t *)&op.n = 3; LweParams ipar; *(int32_t *)&ipar.n = n; *(double *)&ipar.alpha_min = 0.25;
    LweKeySwitchKey ks; ks.n = n; ks.t = T_; ks.basebit = BB_; ks.base = BASE_; ks.out_params = &op; ks.ks = tab;
    LweKey in; in.params = &ipar; in.key = verif_alloc((size_t)n * sizeof(int32_t)); LweKey out; out.params = &op;
    kc_key = in.key[gi]; g_out = &out; g_alpha = a_sym; kc_bad = kc_trivB = kc_encB = kc_nd = 0; kc_hit = 0;
    lweCreateKeySwitchKey(&ks, &in, &out);
    __CPROVER_assert(kc_bad == 0, "every draw is centred with the OUTPUT key's alpha_min; every row write goes to a row of the table (digit 0: noiseless zero sample; digit h >= 1: encryption under the output key with that alpha); rows of index g_i carry h*s_i*2^(32-(j+1)basebit), each written once");
    __CPROVER_assert((int64_t)kc_nd == (int64_t)n * T_ * (BASE_ - 1), "n*t*(base-1) gaussian draws");
    __CPROVER_assert(kc_trivB == T_ && kc_encB == T_ * (BASE_ - 1) && kc_hit == KSC_MASK(T_, 1), "index g_i: one noiseless zero row per j, one encryption per (j, h >= 1), every row exactly once, and no other iteration touches them");
    __CPROVER_assert(in.key[gi] == kc_key, "input key untouched");
#define KC_FREE(j) free(rowA[j]); free(rowB[j]);
    KSC_BLOCKS(KC_FREE)
    free(tab); free(in.key);
    VERIF_REACH();
}
#endif

#ifdef H_POLYUNIFORM
/* torusPolynomialUniform: every coefficient of a TLWE mask polynomial is one fresh draw from the uniform torus sampler */
#include "extracted.inc"
void h_torusPolynomialUniform(void) {
    int32_t N; __CPROVER_assume(N >= 1 && N <= VERIF_NMAX);
    TorusPolynomial p; *(int32_t *)&p.N = N; p.coefsT = verif_alloc((size_t)N * sizeof(Torus32));
    SAMPLERS_RESET();
    torusPolynomialUniform(&p);
    __CPROVER_assert(g_n_uniform_t32 == N && g_n_normal == 0 && g_n_uniform_int == 0, "one uniform torus draw per coefficient, nothing else drawn");
    free(p.coefsT);
    VERIF_REACH();
}
#endif
