/* C05 / C17 / C18: the public import / export wrappers of tfhe_io.cpp, both transports.  wrappers.inc is generated from the real source on
 * every run (tools/wrappers.py): the real body of every wrapper, one recording monitor per inner function, and per wrapper the assertions
 * "one inner call; the stream is the adapter of the caller's own FILE* / C++ stream, of the right flavour; arguments passed through; result
 * returned".  The adapters (to_Ostream / to_Istream, two overloads each) are declared-only: their classes (COstream, StdOstream, ...) are the
 * ASSUMED stream contract of the binary readers / writers. */
#include "verif_prelude.h"
#include <stdio.h>
typedef struct Istream Istream;
typedef struct Ostream Ostream;
typedef struct std__ostream std__ostream; typedef struct std__istream std__istream; typedef std__ostream ostream; typedef std__istream istream;
enum { KIND_FILE = 1, KIND_std = 2 };
static int n_calls, n_adapt, last_callee, ad_kind; static char ad_dir; static const void *ad_src; static char ad_obj;
const Ostream *verif_to_Ostream_FILE(FILE *F) { n_adapt++; ad_kind = KIND_FILE; ad_dir = 'O'; ad_src = F; return (const Ostream *)&ad_obj; }
const Ostream *verif_to_Ostream_std(std__ostream *F) { n_adapt++; ad_kind = KIND_std; ad_dir = 'O'; ad_src = F; return (const Ostream *)&ad_obj; }
const Istream *verif_to_Istream_FILE(FILE *F) { n_adapt++; ad_kind = KIND_FILE; ad_dir = 'I'; ad_src = F; return (const Istream *)&ad_obj; }
const Istream *verif_to_Istream_std(std__istream *F) { n_adapt++; ad_kind = KIND_std; ad_dir = 'I'; ad_src = F; return (const Istream *)&ad_obj; }
#include "wrappers.inc"
