/* C11/C14/C15/C16: coefficient-wise and monomial operations on torus / integer polynomials,
 * N symbolic and unbounded (loop contracts), every a in [0,2N). */
#include "verif_prelude.h"
#include "c_poly.h"
int32_t g_k, g_N;
#include "extracted.inc"
static void havoc_ghosts(void) { int32_t x, y; g_k = x; g_N = y; }
#define H1(fn, ...) void h_##fn(void) { havoc_ghosts(); __VA_ARGS__; VERIF_REACH(); }
H1(torusPolynomialClear, TorusPolynomial *r; torusPolynomialClear(r))
H1(torusPolynomialCopy, TorusPolynomial *r; const TorusPolynomial *s; torusPolynomialCopy(r, s))
H1(torusPolynomialAdd, TorusPolynomial *r; const TorusPolynomial *a; const TorusPolynomial *b; torusPolynomialAdd(r, a, b))
H1(torusPolynomialAddTo, TorusPolynomial *r; const TorusPolynomial *b; torusPolynomialAddTo(r, b))
H1(torusPolynomialSub, TorusPolynomial *r; const TorusPolynomial *a; const TorusPolynomial *b; torusPolynomialSub(r, a, b))
H1(torusPolynomialSubTo, TorusPolynomial *r; const TorusPolynomial *b; torusPolynomialSubTo(r, b))
H1(torusPolynomialAddMulZ, TorusPolynomial *r; const TorusPolynomial *a; int32_t p; const TorusPolynomial *b; torusPolynomialAddMulZ(r, a, p, b))
H1(torusPolynomialAddMulZTo, TorusPolynomial *r; int32_t p; const TorusPolynomial *b; torusPolynomialAddMulZTo(r, p, b))
H1(torusPolynomialSubMulZ, TorusPolynomial *r; const TorusPolynomial *a; int32_t p; const TorusPolynomial *b; torusPolynomialSubMulZ(r, a, p, b))
H1(torusPolynomialSubMulZTo, TorusPolynomial *r; int32_t p; const TorusPolynomial *b; torusPolynomialSubMulZTo(r, p, b))
H1(torusPolynomialMulByXai, TorusPolynomial *r; int32_t a; const TorusPolynomial *s; torusPolynomialMulByXai(r, a, s))
H1(torusPolynomialMulByXaiMinusOne, TorusPolynomial *r; int32_t a; const TorusPolynomial *s; torusPolynomialMulByXaiMinusOne(r, a, s))
H1(intPolynomialMulByXaiMinusOne, IntPolynomial *r; int32_t a; const IntPolynomial *s; intPolynomialMulByXaiMinusOne(r, a, s))
H1(intPolynomialClear, IntPolynomial *r; intPolynomialClear(r))
H1(intPolynomialCopy, IntPolynomial *r; const IntPolynomial *s; intPolynomialCopy(r, s))
H1(intPolynomialAddTo, IntPolynomial *r; const IntPolynomial *s; intPolynomialAddTo(r, s))
