/* C16: allocation / release life cycle of every sample, key and polynomial type, through the real constructors,
 * destructors, init_/destroy_ functions and the real USE_DEFAULT_CONSTRUCTOR_DESTRUCTOR_IMPLEMENTATIONS1 macro text
 * (template_macro.inc is copied from tfhe_generic_templates.h on every run).  Dimensions n, N symbolic; k, l enumerated.
 * Obligations: array sizes derive from the parameter objects; no invalid access; everything is freed (--memory-leak-check). */
#include "verif_prelude.h"
#include "template_macro.inc"
#ifdef H_ALLOC_FFT
static int32_t fft_N; static int fft_live, fft_bad;
LagrangeHalfCPolynomial *new_LagrangeHalfCPolynomial_array(int32_t nbelts, const int32_t N) { if (nbelts != VERIF_K + 1 || N != fft_N) fft_bad++; fft_live++; return verif_alloc((size_t)nbelts * sizeof(LagrangeHalfCPolynomial)); }
void delete_LagrangeHalfCPolynomial_array(int32_t nbelts, LagrangeHalfCPolynomial *obj) { if (nbelts != VERIF_K + 1) fft_bad++; fft_live--; free(obj); }
#endif
#include "extracted.inc"
USE_DEFAULT_CONSTRUCTOR_DESTRUCTOR_IMPLEMENTATIONS1(LweSample, LweParams)
USE_DEFAULT_CONSTRUCTOR_DESTRUCTOR_IMPLEMENTATIONS1(LweKey, LweParams)
USE_DEFAULT_CONSTRUCTOR_DESTRUCTOR_IMPLEMENTATIONS1(TLweKey, TLweParams)
USE_DEFAULT_CONSTRUCTOR_DESTRUCTOR_IMPLEMENTATIONS1(TLweSample, TLweParams)
USE_DEFAULT_CONSTRUCTOR_DESTRUCTOR_IMPLEMENTATIONS1(TGswSample, TGswParams)
#ifndef VERIF_K
#define VERIF_K 1
#endif
#ifndef VERIF_L
#define VERIF_L 2
#endif
void h_alloc(void) {
    int32_t n, N; __CPROVER_assume(n >= 1 && n <= VERIF_NMAX && N >= 1 && N <= VERIF_NMAX);
    LweParams lp; *(int32_t *)&lp.n = n;
    /* LWE sample and key, single and array */
    LweSample *s = new_LweSample(&lp);
    VERIF_SIZE_GUARD(s->a, (size_t)n * sizeof(Torus32));
    delete_LweSample(s);
    LweSample *sa = new_LweSample_array(3, &lp);
    VERIF_SIZE_GUARD(sa, 3 * sizeof(LweSample)); VERIF_SIZE_GUARD(sa[2].a, (size_t)n * sizeof(Torus32));
    delete_LweSample_array(3, sa);
    LweKey *key = new_LweKey(&lp);
    VERIF_SIZE_GUARD(key->key, (size_t)n * sizeof(int32_t)); __CPROVER_assert(key->params == &lp, "key keeps its parameters");
    delete_LweKey(key);
    /* polynomials */
    TorusPolynomial *tp = new_TorusPolynomial(N);
    __CPROVER_assert(tp->N == N, "degree stored"); VERIF_SIZE_GUARD(tp->coefsT, (size_t)N * sizeof(Torus32));
    delete_TorusPolynomial(tp);
    IntPolynomial *ip = new_IntPolynomial_array(2, N);
    __CPROVER_assert(ip[1].N == N, "degree stored"); VERIF_SIZE_GUARD(ip[1].coefs, (size_t)N * sizeof(int32_t));
    delete_IntPolynomial_array(2, ip);
    /* TLWE sample and key */
    TLweParams tlp; *(int32_t *)&tlp.N = N; *(int32_t *)&tlp.k = VERIF_K;
    TLweSample *t = new_TLweSample(&tlp);
    VERIF_SIZE_GUARD(t->a, (size_t)(VERIF_K + 1) * sizeof(TorusPolynomial));
    __CPROVER_assert(t->b == t->a + VERIF_K && t->k == VERIF_K, "b aliases a[k]");
    VERIF_SIZE_GUARD(t->a[VERIF_K].coefsT, (size_t)N * sizeof(Torus32)); VERIF_SIZE_GUARD(t->a[0].coefsT, (size_t)N * sizeof(Torus32));
    delete_TLweSample(t);
    TLweKey *tk = new_TLweKey(&tlp);
    VERIF_SIZE_GUARD(tk->key, (size_t)VERIF_K * sizeof(IntPolynomial)); VERIF_SIZE_GUARD(tk->key[VERIF_K - 1].coefs, (size_t)N * sizeof(int32_t));
    delete_TLweKey(tk);
    /* TGSW sample: (k+1)*l rows, k+1 blocks of l rows */
    TGswParams gp; *(int32_t *)&gp.l = VERIF_L; *(const TLweParams **)&gp.tlwe_params = &tlp; *(int32_t *)&gp.kpl = (VERIF_K + 1) * VERIF_L;
    TGswSample *g = new_TGswSample(&gp);
    VERIF_SIZE_GUARD(g->all_sample, (size_t)((VERIF_K + 1) * VERIF_L) * sizeof(TLweSample));
    VERIF_SIZE_GUARD(g->bloc_sample, (size_t)(VERIF_K + 1) * sizeof(TLweSample *));
    __CPROVER_assert(g->k == VERIF_K && g->l == VERIF_L, "shape stored");
    for (int p = 0; p <= VERIF_K; p++) __CPROVER_assert(g->bloc_sample[p] == g->all_sample + p * VERIF_L, "block p starts at row p*l");
    VERIF_SIZE_GUARD(g->all_sample[(VERIF_K + 1) * VERIF_L - 1].a[VERIF_K].coefsT, (size_t)N * sizeof(Torus32));
    delete_TGswSample(g);
    VERIF_REACH();
}

#ifdef H_ALLOC_BK
/* life cycle of the coefficient-domain bootstrapping key: n TGSW samples + a key-switching key with k*N rows (extracted dimension),
 * through the real init_/destroy_, the real constructors and the real key-switching-key constructor; small concrete n, N, t, basebit */
void h_alloc_bk(void) {
    const int32_t n = 2, N = 2, t = 2, bb = 1;
    LweParams ip; *(int32_t *)&ip.n = n;
    TLweParams tlp; *(int32_t *)&tlp.N = N; *(int32_t *)&tlp.k = VERIF_K; *(int32_t *)&tlp.extracted_lweparams.n = VERIF_K * N;
    TGswParams gp; *(int32_t *)&gp.l = VERIF_L; *(const TLweParams **)&gp.tlwe_params = &tlp; *(int32_t *)&gp.kpl = (VERIF_K + 1) * VERIF_L;
    LweBootstrappingKey bk;
    init_LweBootstrappingKey(&bk, t, bb, &ip, &gp);
    __CPROVER_assert(bk.in_out_params == &ip && bk.bk_params == &gp && bk.accum_params == &tlp && bk.extract_params == &tlp.extracted_lweparams, "parameter pointers");
    VERIF_SIZE_GUARD(bk.bk, (size_t)n * sizeof(TGswSample));
    __CPROVER_assert(bk.ks->n == VERIF_K * N && bk.ks->t == t && bk.ks->basebit == bb && bk.ks->out_params == &ip, "key-switching key has k*N rows towards the input parameters");
    VERIF_SIZE_GUARD(bk.ks->ks0_raw, (size_t)(VERIF_K * N * t * (1 << bb)) * sizeof(LweSample));
    VERIF_SIZE_GUARD(bk.ks->ks[VERIF_K * N - 1][t - 1][(1 << bb) - 1].a, (size_t)n * sizeof(Torus32));
    VERIF_SIZE_GUARD(bk.bk[n - 1].all_sample[(VERIF_K + 1) * VERIF_L - 1].a[VERIF_K].coefsT, (size_t)N * sizeof(Torus32));
    destroy_LweBootstrappingKey(&bk);
    VERIF_REACH();
}
#endif

#ifdef H_ALLOC_FFT
/* life cycle of the FFT-domain samples and of the TGSW key: TLweSampleFFT (k+1 Lagrange polynomials, b aliases a[k]), TGswSampleFFT ((k+1)l TLWE
 * FFT samples, k+1 block pointers), TGswKey (its TLWE key embedded, `key` aliases it) -- through the real init_/destroy_, constructors,
 * destructors and the real macro-generated new_/delete_ family.  The Lagrange polynomial objects themselves belong to the FFT processor
 * (assumed): new_/delete_LagrangeHalfCPolynomial_array are allocation monitors that count and check the element count. */
USE_DEFAULT_CONSTRUCTOR_DESTRUCTOR_IMPLEMENTATIONS1(TLweSampleFFT, TLweParams)
USE_DEFAULT_CONSTRUCTOR_DESTRUCTOR_IMPLEMENTATIONS1(TGswSampleFFT, TGswParams)
void h_alloc_fft(void) {
    int32_t N; __CPROVER_assume(N >= 1 && N <= VERIF_NMAX);
    TLweParams tlp; *(int32_t *)&tlp.N = N; *(int32_t *)&tlp.k = VERIF_K;
    TGswParams gp; *(int32_t *)&gp.l = VERIF_L; *(const TLweParams **)&gp.tlwe_params = &tlp; *(int32_t *)&gp.kpl = (VERIF_K + 1) * VERIF_L;
    fft_N = N; fft_live = fft_bad = 0;
    TLweSampleFFT *t = new_TLweSampleFFT(&tlp);
    VERIF_SIZE_GUARD(t->a, (size_t)(VERIF_K + 1) * sizeof(LagrangeHalfCPolynomial));
    __CPROVER_assert(t->b == t->a + VERIF_K && t->k == VERIF_K, "FFT TLWE sample: b aliases a[k]");
    delete_TLweSampleFFT(t);
    __CPROVER_assert(fft_live == 0 && fft_bad == 0, "FFT TLWE sample: its k+1 Lagrange polynomials are allocated with the ring degree and released");
    TGswSampleFFT *g = new_TGswSampleFFT(&gp);
    VERIF_SIZE_GUARD(g->all_samples, (size_t)((VERIF_K + 1) * VERIF_L) * sizeof(TLweSampleFFT));
    __CPROVER_assert(g->k == VERIF_K && g->l == VERIF_L, "FFT TGSW sample: shape stored");
    for (int p = 0; p <= VERIF_K; p++) __CPROVER_assert(g->sample[p] == g->all_samples + p * VERIF_L, "FFT TGSW sample: block p starts at row p*l");
    VERIF_SIZE_GUARD(g->all_samples[(VERIF_K + 1) * VERIF_L - 1].a, (size_t)(VERIF_K + 1) * sizeof(LagrangeHalfCPolynomial));
    delete_TGswSampleFFT(g);
    __CPROVER_assert(fft_live == 0 && fft_bad == 0, "FFT TGSW sample: every row's polynomials released");
    TGswKey *k = new_TGswKey(&gp);
    __CPROVER_assert(k->params == &gp && k->tlwe_params == &tlp && k->tlwe_key.params == &tlp && k->key == k->tlwe_key.key, "TGSW key: the embedded TLWE key of the ring parameters, `key` aliases its polynomials");
    VERIF_SIZE_GUARD(k->key, (size_t)VERIF_K * sizeof(IntPolynomial)); VERIF_SIZE_GUARD(k->key[VERIF_K - 1].coefs, (size_t)N * sizeof(int32_t));
    delete_TGswKey(k);
    VERIF_REACH();
}
#endif
