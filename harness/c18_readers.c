/* C18 (binary sections only): the eight binary readers of tfhe_io.cpp against a stream stub.
 * Stream stub = the external world (ASSUMED contract of the two stream classes, from tfhe_generic_streams.cpp:68-84):
 *   FILE flavour (CIstream::fread): a short read aborts the process;
 *   C++ stream flavour (StdIstream::fread): a short read leaves the stream failed, the destination keeps/gets arbitrary bytes.
 * Obligations: (1) every destination (pointer, byte count) handed to the stream is writable for that count (never out of bounds);
 * (2) the first read is the 4-byte type tag and a tag different from the requested object's tag never returns normally;
 * (3) a normal return with a clean stream consumed exactly the section's byte count -- so no proper prefix of a valid section can
 *     be accepted with a clean stream, and an input that is too long is not over-consumed. */
#include "verif_prelude.h"
#include "uid_constants.inc"
typedef struct Istream Istream;
static uint64_t g_remaining, g_consumed; static int g_failed, g_kind, g_first; static int32_t g_tag;
void Istream_fread(const Istream *F, void *data, size_t bytes) {
    __CPROVER_assert(__CPROVER_w_ok(data, bytes), "destination of a binary read is writable for the full byte count (no out-of-bounds access)");
    if (g_first) { g_first = 0; __CPROVER_assert(bytes == sizeof(int32_t), "the first read of a binary section is its 4-byte type tag"); }
    if (g_failed) return;                                   /* a failed C++ stream reads nothing more */
    if (g_remaining < bytes) {
        if (g_kind == 0) __CPROVER_assume(0);               /* FILE flavour: abort() */
        g_failed = 1; g_remaining = 0; return;
    }
    if (bytes > 0) __CPROVER_havoc_slice(data, bytes);     /* arbitrary content */
    if (g_consumed == 0 && bytes == sizeof(int32_t)) *(int32_t *)data = g_tag;   /* the tag the input carries */
    g_remaining -= bytes; g_consumed += bytes;
}
static int g_died;
void die_dramatically(const char *message) { g_died = 1; __CPROVER_assume(0); }
#include "extracted.inc"
static void stream_init(void) { uint64_t r; int kd; int32_t tg; __CPROVER_assume(kd == 0 || kd == 1); g_remaining = r; g_kind = kd; g_tag = tg; g_consumed = 0; g_failed = 0; g_first = 1; g_died = 0; }
#define ACCEPTED() (!g_failed)
#define CHECK_SECTION(uid, nbytes) do { \
    __CPROVER_assert(g_failed || g_tag == (uid), "normal return with a clean stream only when the type tag matches the requested object"); \
    __CPROVER_assert(g_failed || g_consumed == (uint64_t)(nbytes), "normal return with a clean stream consumed exactly the section's byte count"); } while (0)

#ifndef VERIF_K
#define VERIF_K 1
#endif
#ifndef VERIF_L
#define VERIF_L 2
#endif
#define KPL ((VERIF_K + 1) * VERIF_L)

#ifdef H_LWE
void h_read_lwe(void) {
    int32_t n; __CPROVER_assume(n >= 1 && n <= VERIF_NMAX);
    LweParams par; *(int32_t *)&par.n = n; LweSample s; s.a = verif_alloc((size_t)n * sizeof(Torus32));
    LweKey key; key.params = &par; key.key = verif_alloc((size_t)n * sizeof(int32_t));
    stream_init();
    read_lweSample((const Istream *)0, &s, &par);
    CHECK_SECTION(LWE_SAMPLE_TYPE_UID, 4 + 4 * (uint64_t)n + 4 + 8);
    stream_init();
    read_lweKey_content((const Istream *)0, &key);
    CHECK_SECTION(LWE_KEY_TYPE_UID, 4 + 4 * (uint64_t)n);
    VERIF_REACH();
}
#endif

#ifdef H_TLWE
void h_read_tlwe(void) {
    int32_t N; __CPROVER_assume(N >= 1 && N <= VERIF_NMAX);
    TLweParams tp; *(int32_t *)&tp.N = N; *(int32_t *)&tp.k = VERIF_K;
    TorusPolynomial polys[VERIF_K + 1]; for (int i = 0; i <= VERIF_K; i++) polys[i].coefsT = verif_alloc((size_t)N * sizeof(Torus32));
    TLweSample s; s.a = polys; s.b = polys + VERIF_K;
    IntPolynomial kp[VERIF_K]; for (int i = 0; i < VERIF_K; i++) kp[i].coefs = verif_alloc((size_t)N * sizeof(int32_t));
    TLweKey key; key.params = &tp; key.key = kp;
    TGswParams gp; *(const TLweParams **)&gp.tlwe_params = &tp; TGswKey gk; gk.params = &gp; gk.key = kp;
    stream_init();
    read_tLweSample((const Istream *)0, &s, &tp);
    CHECK_SECTION(TLWE_SAMPLE_TYPE_UID, 4 + (uint64_t)(VERIF_K + 1) * 4 * (uint64_t)N + 8);
    stream_init();
    read_tLweKey_content((const Istream *)0, &key);
    CHECK_SECTION(TLWE_KEY_TYPE_UID, 4 + (uint64_t)VERIF_K * 4 * (uint64_t)N);
    stream_init();
    read_tGswKey_content((const Istream *)0, &gk);
    CHECK_SECTION(TGSW_KEY_TYPE_UID, 4 + (uint64_t)VERIF_K * 4 * (uint64_t)N);
    VERIF_REACH();
}
#endif

#ifdef H_TGSW
/* nested sections: a TGSW sample is its tag followed by (k+1)l complete TLWE sample sections; a wrong INNER tag must not be accepted either */
void h_read_tgsw(void) {
    int32_t N; __CPROVER_assume(N >= 1 && N <= 4096);
    TLweParams tp; *(int32_t *)&tp.N = N; *(int32_t *)&tp.k = VERIF_K; TGswParams gp; *(const TLweParams **)&gp.tlwe_params = &tp; *(int32_t *)&gp.kpl = KPL;
    TorusPolynomial polys[KPL][VERIF_K + 1]; TLweSample rows[KPL];
    for (int r = 0; r < KPL; r++) { for (int i = 0; i <= VERIF_K; i++) polys[r][i].coefsT = verif_alloc((size_t)N * sizeof(Torus32)); rows[r].a = polys[r]; rows[r].b = polys[r] + VERIF_K; }
    TGswSample s; s.all_sample = rows;
    stream_init();
    read_tGswSample((const Istream *)0, &s, &gp);
    CHECK_SECTION(TGSW_SAMPLE_TYPE_UID, 4 + (uint64_t)KPL * (4 + (uint64_t)(VERIF_K + 1) * 4 * (uint64_t)N + 8));
    VERIF_REACH();
}
#endif

#ifdef H_KS
#define B_n 2
#define B_T 2
#define B_BB 1
void h_read_ks(void) {
    int32_t nout; __CPROVER_assume(nout >= 1 && nout <= 4096);
    LweParams op; *(int32_t *)&op.n = nout;
    static LweSample rows[B_n * B_T * (1 << B_BB)]; static LweSample *l1[B_n * B_T]; static LweSample **l0[B_n];
    for (int r = 0; r < B_n * B_T * (1 << B_BB); r++) rows[r].a = verif_alloc((size_t)nout * sizeof(Torus32));
    for (int p = 0; p < B_n * B_T; p++) l1[p] = rows + (1 << B_BB) * p;
    for (int p = 0; p < B_n; p++) l0[p] = l1 + B_T * p;
    LweKeySwitchKey ks; ks.n = B_n; ks.t = B_T; ks.basebit = B_BB; ks.base = 1 << B_BB; ks.out_params = &op; ks.ks0_raw = rows; ks.ks1_raw = l1; ks.ks = l0;
    stream_init();
    read_lweKeySwitchKey_content((const Istream *)0, &ks);
    CHECK_SECTION(LWE_KEYSWITCH_KEY_TYPE_UID, 4 + 8 + (uint64_t)(B_n * B_T * (1 << B_BB)) * (4 * (uint64_t)nout + 4));
    VERIF_REACH();
}
#endif

#ifdef H_BK
#define B_n 2
void h_read_bk(void) {
    int32_t N; __CPROVER_assume(N >= 1 && N <= 4096);
    LweParams ip; *(int32_t *)&ip.n = B_n; TLweParams tp; *(int32_t *)&tp.N = N; *(int32_t *)&tp.k = VERIF_K; TGswParams gp; *(const TLweParams **)&gp.tlwe_params = &tp; *(int32_t *)&gp.kpl = KPL;
    static TorusPolynomial polys[B_n][KPL][VERIF_K + 1]; static TLweSample rows[B_n][KPL]; static TGswSample gs[B_n];
    for (int i = 0; i < B_n; i++) { for (int r = 0; r < KPL; r++) { for (int q = 0; q <= VERIF_K; q++) polys[i][r][q].coefsT = verif_alloc((size_t)N * sizeof(Torus32)); rows[i][r].a = polys[i][r]; rows[i][r].b = polys[i][r] + VERIF_K; } gs[i].all_sample = rows[i]; }
    LweBootstrappingKey bk; *(const LweParams **)&bk.in_out_params = &ip; *(const TGswParams **)&bk.bk_params = &gp; bk.bk = gs;
    stream_init();
    read_LweBootstrappingKey_content((const Istream *)0, &bk);
    CHECK_SECTION(LWE_BOOTSTRAPPING_KEY_TYPE_UID, 4 + 8 + (uint64_t)(B_n * KPL * (VERIF_K + 1)) * 4 * (uint64_t)N);
    VERIF_REACH();
}
#endif
