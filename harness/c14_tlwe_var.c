/* C14: variance annotation of tLweAddMulTo / tLweSubMulTo: var(result) += p^2 * var(sample), for enumerated multipliers p and EVERY ring degree
 * (torusPolynomialAddMulZTo / SubMulZTo are monitors here: the coefficient clause is proved separately in the TLWE groups; the annotation is one
 * statement after the loop).  p is enumerated because the IEEE product of two symbolic doubles is not decided by any installed back end (DESIGN 8.2);
 * with p*p a constant the product has one constant operand. */
#include "verif_prelude.h"
#ifndef VERIF_K
#define VERIF_K 1
#endif
static int n_calls, bad; static int32_t m_p; static TLweSample *m_r; static const TLweSample *m_s;
void torusPolynomialAddMulZTo(TorusPolynomial *result, const int32_t p, const TorusPolynomial *poly2) { if (p != m_p || result != &m_r->a[n_calls] || poly2 != &m_s->a[n_calls]) bad++; n_calls++; }
void torusPolynomialSubMulZTo(TorusPolynomial *result, const int32_t p, const TorusPolynomial *poly2) { if (p != m_p || result != &m_r->a[n_calls] || poly2 != &m_s->a[n_calls]) bad++; n_calls++; }
#include "extracted.inc"
void h_tlwe_var(void) {
    TLweParams tp; *(int32_t *)&tp.k = VERIF_K; static TorusPolynomial pr[VERIF_K + 1], ps[VERIF_K + 1];
    TLweSample r, s; r.a = pr; r.b = pr + VERIF_K; s.a = ps; s.b = ps + VERIF_K;
    /* the sample's annotation is read in place on both sides (a copy would make the solver prove two IEEE multipliers equivalent) */
    __CPROVER_assume(r.current_variance >= 0.0 && r.current_variance <= 1e300 && s.current_variance >= 0.0 && s.current_variance <= 1e300); double v0 = r.current_variance;
    int32_t p; p = (VERIF_PCONST); m_p = p; m_r = &r; m_s = &s; n_calls = bad = 0;
#ifdef B_SUB
    tLweSubMulTo(&r, p, &s, &tp);
#else
    tLweAddMulTo(&r, p, &s, &tp);
#endif
    __CPROVER_assert(n_calls == VERIF_K + 1 && bad == 0, "every polynomial (mask and b) is combined once with the same multiplier, slot i with slot i");
    __CPROVER_assert(r.current_variance == v0 + (double)(p * p) * s.current_variance, "variance annotation var1 + p^2*var2");
    VERIF_REACH();
}
