/* C01/C15: the gate layer.  n symbolic and unbounded; linear operations are replaced by their C14 contracts,
 * the bootstrap by a monitor that only writes ghost variables; modSwitchToTorus32 is the real body. */
#include "verif_prelude.h"
#if defined(H_MUX) && !defined(MUX_SAMEDIM)
extern int32_t g_ke, g_ne;   /* MUX handles samples of the input dimension and of the extracted dimension */
#define LWE_GK(params_) ((params_)->n == g_ne ? g_ke : g_k)
#endif
#include "c_lwe.h"
#include "c_gates.h"
int32_t g_k;
/* c*x for the small constants of the gate table, written without a multiplier */
#define AFF(c, x) ((c) == 1 ? (uint32_t)(x) : (c) == -1 ? 0u - (uint32_t)(x) : (c) == 2 ? (uint32_t)(x) + (uint32_t)(x) : (c) == -2 ? 0u - ((uint32_t)(x) + (uint32_t)(x)) : (uint32_t)(c) * (uint32_t)(x))

#ifdef H_GATE2
/* callee contracts (enforced on the real bodies in the C14 groups) */
void lweNoiselessTrivial(LweSample *result, Torus32 mu, const LweParams *params) CONTRACT_lweNoiselessTrivial;
void lweAddTo(LweSample *result, const LweSample *sample, const LweParams *params) CONTRACT_lweAddTo;
void lweSubTo(LweSample *result, const LweSample *sample, const LweParams *params) CONTRACT_lweSubTo;
void lweAddMulTo(LweSample *result, int32_t p, const LweSample *sample, const LweParams *params) CONTRACT_lweAddMulTo;
void lweSubMulTo(LweSample *result, int32_t p, const LweSample *sample, const LweParams *params) CONTRACT_lweSubMulTo;
static int n_new, n_del, live; static LweSample *g_tmp; static const LweParams *new_par;
LweSample *new_LweSample(const LweParams *params) { LweSample *p = verif_alloc(sizeof(LweSample)); p->a = verif_alloc((size_t)params->n * sizeof(Torus32)); g_tmp = p; new_par = params; n_new++; live++; return p; }
void delete_LweSample(LweSample *obj) { if (obj == g_tmp) live--; n_del++; free(obj->a); free(obj); }
/* monitor: what reaches the sign bootstrapping */
static int cap_calls; static Torus32 cap_mu, cap_xa, cap_xb; static LweSample *cap_res; static const LweBootstrappingKeyFFT *cap_bk; static const LweSample *cap_x;
void tfhe_bootstrap_FFT(LweSample *result, const LweBootstrappingKeyFFT *bk, Torus32 mu, const LweSample *x) {
    cap_calls++; cap_mu = mu; cap_xa = x->a[g_k]; cap_xb = x->b; cap_res = result; cap_bk = bk; cap_x = x;
}
#include "extracted.inc"
#ifndef ALIAS
#define ALIAS 0
#endif
void h_gate2(void) {
    int32_t n; __CPROVER_assume(n >= 1 && n <= VERIF_NMAX);
    LweParams *par = verif_alloc(sizeof(LweParams)); *(int32_t *)&par->n = n;
    TFheGateBootstrappingParameterSet ps; *(const LweParams **)&ps.in_out_params = par;
    LweBootstrappingKeyFFT bkfft; TFheGateBootstrappingCloudKeySet cloud;
    *(const TFheGateBootstrappingParameterSet **)&cloud.params = &ps; *(const LweBootstrappingKeyFFT **)&cloud.bkFFT = &bkfft;
    LweSample *ca = verif_alloc(sizeof(LweSample)); ca->a = verif_alloc((size_t)n * sizeof(Torus32));
    LweSample *cb, *res;
#if ALIAS == 3 || ALIAS == 4
    cb = ca;                                                /* both inputs are the same object */
#else
    cb = verif_alloc(sizeof(LweSample)); cb->a = verif_alloc((size_t)n * sizeof(Torus32));
#endif
#if ALIAS == 1 || ALIAS == 4
    res = ca;                                               /* output object == first input */
#elif ALIAS == 2
    res = cb;
#else
    res = verif_alloc(sizeof(LweSample)); res->a = verif_alloc((size_t)n * sizeof(Torus32));
#endif
    __CPROVER_assume(ca->current_variance >= 0.0 && ca->current_variance <= 1e100 && cb->current_variance >= 0.0 && cb->current_variance <= 1e100);
    int32_t gk; __CPROVER_assume(gk >= 0 && gk < n); g_k = gk;
    Torus32 ca_a = ca->a[g_k], cb_a = cb->a[g_k], ca_b = ca->b, cb_b = cb->b;
    cap_calls = 0; n_new = n_del = live = 0;
    GATE(res, ca, cb, &cloud);
    __CPROVER_assert(cap_calls == 1 && cap_res == res && cap_bk == &bkfft, "exactly one sign bootstrapping, into result, with the cloud key's FFT bootstrapping key");
    __CPROVER_assert(cap_mu == (Torus32)EIGHTH, "output message mu = 1/8");
    __CPROVER_assert(cap_x != ca && cap_x != cb, "the sample handed to the bootstrap is not one of the input objects");
    __CPROVER_assert(U32(cap_xa) == AFF(GA, ca_a) + AFF(GB, cb_a), "mask: x.a[k] == alpha*ca.a[k] + beta*cb.a[k] (mod 2^32), every k");
    __CPROVER_assert(U32(cap_xb) == AFF(GC, EIGHTH) + AFF(GA, ca_b) + AFF(GB, cb_b), "b: x.b == C + alpha*ca.b + beta*cb.b (mod 2^32)");
    __CPROVER_assert(n_new == n_del, "every temporary is released");
    __CPROVER_assert(ca->a[g_k] == ca_a && cb->a[g_k] == cb_a && ca->b == ca_b && cb->b == cb_b, "input ciphertexts bit-for-bit unchanged by the gate's own code (also when result aliases an input: only the bootstrap writes result)");
    VERIF_REACH();
}
#endif

#ifdef H_TRUTH
/* truth-table lemma, from the property statement; all admissible phases symbolic */
static int in_band(uint32_t p, int bit) { uint32_t c = bit ? EIGHTH : 0u - EIGHTH; uint32_t d = p - c; return d <= T_1_32 || d >= 0u - T_1_32; }
#define TRUTH(name, A, B, C, F) \
void h_truth_##name(void) { \
    uint32_t in_pa, in_pb; int a, b; __CPROVER_assume((a == 0 || a == 1) && (b == 0 || b == 1)); \
    __CPROVER_assume(in_band(in_pa, a) && in_band(in_pb, b)); \
    uint32_t x = AFF(C, EIGHTH) + AFF(A, in_pa) + AFF(B, in_pb); \
    int32_t sx = (int32_t)x; \
    if (F) __CPROVER_assert(sx >= (int32_t)T_1_16 && sx <= (int32_t)(0x80000000u - T_1_16), #name ": truth value 1 -> phase in [1/16, 1/2 - 1/16]"); \
    else __CPROVER_assert(sx <= -(int32_t)T_1_16 && sx >= -(int32_t)(0x80000000u - T_1_16), #name ": truth value 0 -> phase in [-1/2 + 1/16, -1/16]"); \
    VERIF_REACH(); }
GATE_TABLE(TRUTH)
/* MUX: u1 = AND(a,b), u2 = AND(!a,c) (bootstrapped, phase +-1/8 +- 1/32), output form 1/8 + u1 + u2; (+,+) is impossible */
void h_truth_bootsMUX(void) {
    uint32_t in_pa, in_pb, in_pc; int a, b, c; __CPROVER_assume((a == 0 || a == 1) && (b == 0 || b == 1) && (c == 0 || c == 1));
    __CPROVER_assume(in_band(in_pa, a) && in_band(in_pb, b) && in_band(in_pc, c));
    int32_t x1 = (int32_t)(0u - EIGHTH + in_pa + in_pb);        /* -1/8 + a + b */
    int32_t x2 = (int32_t)(0u - EIGHTH - in_pa + in_pc);        /* -1/8 - a + c */
    int f1 = a && b, f2 = !a && c;
    if (f1) __CPROVER_assert(x1 >= (int32_t)T_1_16 && x1 <= (int32_t)(0x80000000u - T_1_16), "MUX first form decides a AND b"); else __CPROVER_assert(x1 <= -(int32_t)T_1_16 && x1 >= -(int32_t)(0x80000000u - T_1_16), "MUX first form decides a AND b (0)");
    if (f2) __CPROVER_assert(x2 >= (int32_t)T_1_16 && x2 <= (int32_t)(0x80000000u - T_1_16), "MUX second form decides !a AND c"); else __CPROVER_assert(x2 <= -(int32_t)T_1_16 && x2 >= -(int32_t)(0x80000000u - T_1_16), "MUX second form decides !a AND c (0)");
    uint32_t u1, u2; __CPROVER_assume(in_band(u1, f1) && in_band(u2, f2));   /* assumed bootstrap contract: +-1/8 within 1/32 */
    int32_t y = (int32_t)(EIGHTH + u1 + u2);
    int f = a ? b : c;
    __CPROVER_assert(f == (f1 || f2) && !(f1 && f2), "a?b:c == (a AND b) OR (!a AND c), never both");
    if (f) __CPROVER_assert(y >= (int32_t)T_1_16, "MUX output phase positive with margin (decrypts to 1)"); else __CPROVER_assert(y <= -(int32_t)T_1_16, "MUX output phase negative with margin (decrypts to 0)");
    VERIF_REACH();
}
#endif

#ifdef H_MUX
void lweNoiselessTrivial(LweSample *result, Torus32 mu, const LweParams *params) CONTRACT_lweNoiselessTrivial;
void lweAddTo(LweSample *result, const LweSample *sample, const LweParams *params) CONTRACT_lweAddTo;
void lweSubTo(LweSample *result, const LweSample *sample, const LweParams *params) CONTRACT_lweSubTo;
static int n_new, n_del; static const LweParams *g_inpar, *g_expar;
LweSample *new_LweSample(const LweParams *params) { LweSample *p = verif_alloc(sizeof(LweSample)); p->a = verif_alloc((size_t)params->n * sizeof(Torus32)); n_new++; return p; }
void delete_LweSample(LweSample *obj) { n_del++; free(obj->a); free(obj); }
/* the two bootstraps without key switch: monitor + havoc of the output under the assumed contract shape */
static int w_calls; static Torus32 w_mu[2], w_xa[2], w_xb[2]; static LweSample *w_res[2]; static Torus32 w_ua[2], w_ub[2]; static const LweBootstrappingKeyFFT *w_bk[2];
int32_t g_ke, g_ne;   /* ghost coordinate in the extracted dimension; the extracted dimension itself */
void tfhe_bootstrap_woKS_FFT(LweSample *result, const LweBootstrappingKeyFFT *bk, Torus32 mu, const LweSample *x) {
    int i = w_calls < 2 ? w_calls : 1;
    w_mu[i] = mu; w_xa[i] = x->a[g_k]; w_xb[i] = x->b; w_res[i] = result; w_bk[i] = bk; w_calls++;
    Torus32 na, nb; result->a[g_ke] = na; result->b = nb; result->current_variance = 0.0;   /* arbitrary output sample */
    w_ua[i] = na; w_ub[i] = nb;
}
static int k_calls; static LweSample *k_res; static const LweKeySwitchKey *k_ks; static Torus32 k_xa, k_xb;
void lweKeySwitch(LweSample *result, const LweKeySwitchKey *ks, const LweSample *sample) { k_calls++; k_res = result; k_ks = ks; k_xa = sample->a[g_ke]; k_xb = sample->b; }
#include "extracted.inc"
void h_mux(void) {
    int32_t n, ne; __CPROVER_assume(n >= 1 && n <= VERIF_NMAX && ne >= 1 && ne <= VERIF_NMAX); g_ne = ne;
#ifdef MUX_SAMEDIM
    __CPROVER_assume(n == ne);
#else
    __CPROVER_assume(n != ne);
#endif
    LweParams *par = verif_alloc(sizeof(LweParams)); *(int32_t *)&par->n = n;
    TLweParams *tl = verif_alloc(sizeof(TLweParams)); *(int32_t *)&tl->extracted_lweparams.n = ne;
    TGswParams *tg = verif_alloc(sizeof(TGswParams)); *(const TLweParams **)&tg->tlwe_params = tl;
    TFheGateBootstrappingParameterSet ps; *(const LweParams **)&ps.in_out_params = par; *(const TGswParams **)&ps.tgsw_params = tg;
    LweKeySwitchKey ksk; LweBootstrappingKeyFFT bkfft; *(const LweKeySwitchKey **)&bkfft.ks = &ksk;
    TFheGateBootstrappingCloudKeySet cloud; *(const TFheGateBootstrappingParameterSet **)&cloud.params = &ps; *(const LweBootstrappingKeyFFT **)&cloud.bkFFT = &bkfft;
    LweSample *a = verif_alloc(sizeof(LweSample)); a->a = verif_alloc((size_t)n * sizeof(Torus32));
    LweSample *b = verif_alloc(sizeof(LweSample)); b->a = verif_alloc((size_t)n * sizeof(Torus32));
    LweSample *c = verif_alloc(sizeof(LweSample)); c->a = verif_alloc((size_t)n * sizeof(Torus32));
    LweSample *res;
#if ALIAS == 1
    res = a;
#elif ALIAS == 2
    res = b;
#elif ALIAS == 3
    res = c;
#else
    res = verif_alloc(sizeof(LweSample)); res->a = verif_alloc((size_t)n * sizeof(Torus32));
#endif
    __CPROVER_assume(a->current_variance >= 0.0 && a->current_variance <= 1e100 && b->current_variance >= 0.0 && b->current_variance <= 1e100 && c->current_variance >= 0.0 && c->current_variance <= 1e100);
    int32_t gk, gke; __CPROVER_assume(gk >= 0 && gk < n && gke >= 0 && gke < ne); g_k = gk; g_ke = gke;
#ifdef MUX_SAMEDIM
    g_ke = g_k;
#endif
    Torus32 aa = a->a[g_k], ba = b->a[g_k], ca = c->a[g_k], ab = a->b, bb = b->b, cb = c->b;
    w_calls = k_calls = n_new = n_del = 0;
    bootsMUX(res, a, b, c, &cloud);
    __CPROVER_assert(w_calls == 2 && w_mu[0] == (Torus32)EIGHTH && w_mu[1] == (Torus32)EIGHTH && w_bk[0] == &bkfft && w_bk[1] == &bkfft, "two bootstraps without key switch, mu = 1/8");
    __CPROVER_assert(U32(w_xa[0]) == U32(aa) + U32(ba) && U32(w_xb[0]) == 0u - EIGHTH + U32(ab) + U32(bb), "first form: -1/8 + a + b");
    __CPROVER_assert(U32(w_xa[1]) == U32(ca) - U32(aa) && U32(w_xb[1]) == 0u - EIGHTH - U32(ab) + U32(cb), "second form: -1/8 - a + c");
    __CPROVER_assert(w_res[0] != w_res[1], "the two intermediate results are distinct objects");
    __CPROVER_assert(k_calls == 1 && k_res == res && k_ks == &ksk, "one key switch into result with the key-switching key of the cloud key");
    __CPROVER_assert(U32(k_xa) == U32(w_ua[0]) + U32(w_ua[1]) && U32(k_xb) == EIGHTH + U32(w_ub[0]) + U32(w_ub[1]), "key-switched sample: 1/8 + u1 + u2 (extracted dimension)");
    __CPROVER_assert(n_new == n_del, "every temporary is released");
    __CPROVER_assert(a->a[g_k] == aa && b->a[g_k] == ba && c->a[g_k] == ca && a->b == ab && b->b == bb && c->b == cb, "inputs untouched by the gate's own code");
    VERIF_REACH();
}
#endif

#ifdef H_GATE1
/* NOT / COPY / CONSTANT: noise-free linear operations (exact) */
void lweNegate(LweSample *result, const LweSample *sample, const LweParams *params) CONTRACT_lweNegate;
void lweCopy(LweSample *result, const LweSample *sample, const LweParams *params) CONTRACT_lweCopy;
void lweNoiselessTrivial(LweSample *result, Torus32 mu, const LweParams *params) CONTRACT_lweNoiselessTrivial;
#include "extracted.inc"
void h_gate1(void) {
    int32_t n; __CPROVER_assume(n >= 1 && n <= VERIF_NMAX);
    LweParams *par = verif_alloc(sizeof(LweParams)); *(int32_t *)&par->n = n;
    TFheGateBootstrappingParameterSet ps; *(const LweParams **)&ps.in_out_params = par;
    TFheGateBootstrappingCloudKeySet cloud; *(const TFheGateBootstrappingParameterSet **)&cloud.params = &ps;
    LweSample *ca = verif_alloc(sizeof(LweSample)); ca->a = verif_alloc((size_t)n * sizeof(Torus32));
#ifdef KNOB_ALIAS
    LweSample *res = ca;                                   /* bootsNOT(x, x), bootsCOPY(x, x): output object == input object */
#else
    LweSample *res = verif_alloc(sizeof(LweSample)); res->a = verif_alloc((size_t)n * sizeof(Torus32));
#endif
    __CPROVER_assume(ca->current_variance >= 0.0 && ca->current_variance <= 1e100);
    int32_t gk; __CPROVER_assume(gk >= 0 && gk < n); g_k = gk;
    Torus32 ca_a = ca->a[g_k], ca_b = ca->b; int32_t in_value;
#ifdef KNOB_ALIAS
    bootsCOPY(res, ca, &cloud);
    __CPROVER_assert(res->a[g_k] == ca_a && res->b == ca_b, "COPY in place: unchanged");
    bootsNOT(res, ca, &cloud);
    __CPROVER_assert(U32(res->a[g_k]) == 0u - U32(ca_a) && U32(res->b) == 0u - U32(ca_b), "NOT in place: result == -old value exactly");
#else
    bootsNOT(res, ca, &cloud);
    __CPROVER_assert(U32(res->a[g_k]) == 0u - U32(ca_a) && U32(res->b) == 0u - U32(ca_b), "NOT: result == -ca exactly (phase negated: decrypts to the complement)");
    bootsCOPY(res, ca, &cloud);
    __CPROVER_assert(res->a[g_k] == ca_a && res->b == ca_b, "COPY: result == ca exactly");
    bootsCONSTANT(res, in_value, &cloud);
    __CPROVER_assert(res->a[g_k] == 0 && U32(res->b) == (in_value ? EIGHTH : 0u - EIGHTH) && res->current_variance == 0.0, "CONSTANT: noiseless trivial sample of +-1/8");
    __CPROVER_assert(ca->a[g_k] == ca_a && ca->b == ca_b, "input untouched");
#endif
    VERIF_REACH();
}
#endif
