/* C17 and C05, section structure and BINARY sections only (the parameter TEXT sections are outside this family's reach).
 * One harness, two sets of assertions: A17(...) is checked when the group is built for C17 (-DPROP_C17), A05(...) for C05 (-DPROP_C05);
 * each assertion is taken from the statement of its own property and nothing else (an export order that changes consistently in
 * writer and reader breaks neither property and must not fail here).
 *  H_STRUCT   real bodies of write_tfheGateBootstrappingCloudKeySet / ...SecretKeySet / write_lweBootstrappingKey / write_lweKey /
 *             write_tGswKey and of the two key-set readers (with the real constructors), against section monitors.
 *             C17: the cloud export is exactly [parameter text iff requested] [key-switch parameter text] [key-switch rows]
 *                  [bootstrapping rows] of the objects reachable from the cloud structure, no key section, no key object handed to any
 *                  writer; the secret export begins with the same sections (same arguments) and has more: strict prefix; the cloud import
 *                  reads no key section and its result holds exactly (parameters, key read, its FFT image).
 *             C05: what each importer reads is, section by section, what the matching exporter writes (same order, parameter text present
 *                  exactly when the importer is not given the parameters), and the imported structure holds the objects read.
 *  H_BKSTRUCT the same for write_lweBootstrappingKey / read_new_lweBootstrappingKey.
 *  H_KS/H_BK  real bodies of the two binary row writers and readers against a byte-stream monitor; the ghost index g_w ranges over every
 *             write.  Both: every source / destination is valid for the byte count.
 *             C17: the w-th write is exactly the w-th field of the row layout (tag, ONE variance, then a|b of every row in index order /
 *                  the k+1 polynomials of every TLWE row) and nothing else; total size = the closed form in the parameters.
 *             C05: the reader, reading into the same object, makes the same number of reads, and its w-th read has the pointer and byte
 *                  count of the w-th write (every field is restored from the bytes it was written to); the single variance written is the
 *                  maximum over the rows and every imported row carries the stored value.
 *  H_KEYS     key sections: C17 non-empty and of the size fixed by the parameters (the prefix is strict by at least that much);
 *             C05 writer / reader layout agreement for the LWE key, TLWE key, TGSW key, LWE / TLWE / TGSW sample sections. */
#include "verif_prelude.h"
#include "uid_constants.inc"
typedef struct Istream Istream;
typedef struct Ostream Ostream;
void die_dramatically(const char *message) { __CPROVER_assume(0); }
#ifdef PROP_C17
#define A17(c, msg) __CPROVER_assert(c, msg)
#else
#define A17(c, msg) ((void)0)
#endif
#ifdef PROP_C05
#define A05(c, msg) __CPROVER_assert(c, msg)
#else
#define A05(c, msg) ((void)0)
#endif

/* ---------------- byte-stream monitors (ASSUMED contract of the stream classes: fwrite copies `bytes` bytes from data, fread to data) */
static uint64_t g_wbytes, g_rbytes; static uint32_t g_wcount, g_rcount, g_w;    /* g_w: the ghost write/read index watched */
static const void *g_wptr; static uint64_t g_wlen; static int32_t g_wtag; static double g_wvar;
static const void *g_rptr; static uint64_t g_rlen; static double g_rvar_in;
void Ostream_fwrite(const Ostream *F, const void *data, size_t bytes) {
    __CPROVER_assert(__CPROVER_r_ok(data, bytes), "source of a binary write is readable for the full byte count (no out-of-bounds read into the export)");
    if (g_wcount == g_w) { g_wptr = data; g_wlen = bytes; }
    if (g_wcount == 0 && bytes == sizeof(int32_t)) g_wtag = *(const int32_t *)data;
    if (g_wcount == 1 && bytes == sizeof(double)) g_wvar = *(const double *)data;
    g_wcount++; g_wbytes += bytes;
}
void Istream_fread(const Istream *F, void *data, size_t bytes) {
    __CPROVER_assert(__CPROVER_w_ok(data, bytes), "destination of a binary read is writable for the full byte count");
    if (g_rcount == g_w) { g_rptr = data; g_rlen = bytes; }
    if (bytes > 0) __CPROVER_havoc_slice(data, bytes);
    if (g_rcount == 0 && bytes == sizeof(int32_t)) *(int32_t *)data = g_wtag;       /* the reader is fed what the writer produced */
    if (g_rcount == 1 && bytes == sizeof(double)) *(double *)data = g_rvar_in;
    g_rcount++; g_rbytes += bytes;
}
static void stream_init(void) { uint32_t w; g_w = w; g_wbytes = g_rbytes = 0; g_wcount = g_rcount = 0; g_wptr = g_rptr = 0; g_wlen = g_rlen = 0; g_wtag = -1; g_wvar = 0; }
/* is_field: the w-th item is a field of the object (not the tag / the single variance, which live in locals of writer and reader) */
#define SAME_FIELDS(nw, is_field) do { \
    A05(g_rbytes == g_wbytes, "the reader consumes exactly as many bytes as the writer produced"); \
    A05(g_rcount == g_wcount, "[proof step] the reader makes as many reads as the writer made writes"); \
    if (g_w < (nw)) A05(g_rlen == g_wlen && (!(is_field) || g_rptr == g_wptr), "[proof step] the w-th read fills the field the w-th write came from, with the same byte count"); } while (0)

#ifndef VERIF_K
#define VERIF_K 1
#endif
#ifndef VERIF_L
#define VERIF_L 2
#endif
#define KPL ((VERIF_K + 1) * VERIF_L)

/* ---------------- section monitors: one record per section written / read, writers and readers in ONE alphabet */
enum { S_GBPARAMS = 1, S_LWEPARAMS, S_TGSWPARAMS, S_KSPARAMS, S_KSCONTENT, S_BKCONTENT, S_LWEKEYCONTENT, S_TGSWKEYCONTENT, X_NEWBK, X_BKFFT };
#define TRMAX 12
static int g_id[TRMAX]; static const void *g_obj[TRMAX]; static const void *g_str[TRMAX]; static int g_len;
static void rec(int id, const void *F, const void *o) { __CPROVER_assert(g_len < TRMAX, "section trace within its bound"); g_id[g_len] = id; g_str[g_len] = F; g_obj[g_len] = o; g_len++; }
static int t1_id[TRMAX]; static const void *t1_obj[TRMAX]; static int t1_len;
static void keep(void) { for (int i = 0; i < TRMAX; i++) { t1_id[i] = g_id[i]; t1_obj[i] = g_obj[i]; } t1_len = g_len; g_len = 0; }
/* stream sections only (drops the construction records); row sections of a bootstrapping key collapse onto its first section */
static int f_id[2][TRMAX]; static int f_len[2];
static void filter(int w, const int *id, int len) { int n = 0; for (int i = 0; i < TRMAX; i++) if (i < len && id[i] != X_NEWBK && id[i] != X_BKFFT) f_id[w][n++] = id[i]; f_len[w] = n; }
#define MIRRORED(what) do { filter(0, t1_id, t1_len); filter(1, g_id, g_len); \
    A05(f_len[0] == f_len[1], what ": the importer reads as many sections as the exporter wrote"); \
    for (int i_ = 0; i_ < TRMAX; i_++) if (i_ < f_len[0] && i_ < f_len[1]) A05(f_id[0][i_] == f_id[1][i_], what ": the importer reads the sections in the order the exporter wrote them"); } while (0)

#ifdef H_STRUCT
void write_tfheGateBootstrappingParameters(const Ostream *F, const TFheGateBootstrappingParameterSet *p) { rec(S_GBPARAMS, F, p); }
void write_lweParams(const Ostream *F, const LweParams *p) { rec(S_LWEPARAMS, F, p); }
void write_tGswParams(const Ostream *F, const TGswParams *p) { rec(S_TGSWPARAMS, F, p); }
void write_LweKeySwitchParameters_section(const Ostream *F, const LweKeySwitchKey *ks) { rec(S_KSPARAMS, F, ks); }
void write_LweKeySwitchKey_content(const Ostream *F, const LweKeySwitchKey *ks) { rec(S_KSCONTENT, F, ks); }
void write_LweBootstrappingKey_content(const Ostream *F, const LweBootstrappingKey *bk) { rec(S_BKCONTENT, F, bk); }
void write_lweKey_content(const Ostream *F, const LweKey *k) { rec(S_LWEKEYCONTENT, F, k); }
void write_tGswKey_content(const Ostream *F, const TGswKey *k) { rec(S_TGSWKEYCONTENT, F, k); }
/* readers of the nested objects: what they consume from the stream (proved for the bootstrapping key in H_BKSTRUCT; the key readers
 * read_new_lweKey / read_new_tGswKey read their parameter text exactly when no parameters are given: their two-line bodies, not re-proved) */
static TFheGateBootstrappingParameterSet *g_new_params; static LweBootstrappingKey *g_new_bk; static LweBootstrappingKeyFFT *g_new_bkfft; static LweKey *g_new_lwekey; static TGswKey *g_new_tgswkey;
static const void *g_bk_io, *g_bk_bp;
TFheGateBootstrappingParameterSet *read_new_tfheGateBootstrappingParameters(const Istream *F) { rec(S_GBPARAMS, F, 0); return g_new_params; }
LweBootstrappingKey *read_new_lweBootstrappingKey(const Istream *F, const LweParams *io, const TGswParams *bp) {
    g_bk_io = io; g_bk_bp = bp; if (!io) rec(S_LWEPARAMS, F, 0); if (!bp) rec(S_TGSWPARAMS, F, 0); rec(S_KSPARAMS, F, 0); rec(S_KSCONTENT, F, 0); rec(S_BKCONTENT, F, 0); return g_new_bk; }
LweKey *read_new_lweKey(const Istream *F, const LweParams *p) { if (!p) rec(S_LWEPARAMS, F, 0); rec(S_LWEKEYCONTENT, F, p); return g_new_lwekey; }
TGswKey *read_new_tGswKey(const Istream *F, const TGswParams *p) { if (!p) rec(S_TGSWPARAMS, F, 0); rec(S_TGSWKEYCONTENT, F, p); return g_new_tgswkey; }
LweBootstrappingKeyFFT *new_LweBootstrappingKeyFFT(const LweBootstrappingKey *bk) { rec(X_BKFFT, 0, bk); return g_new_bkfft; }
static int g_registered; static const void *g_registered_obj;
void TfheGarbageCollector__register_param(void *p) { g_registered++; g_registered_obj = p; }
#include "extracted.inc"

void h_struct(void) {
    /* the objects are only compared by address here: distinct dummies */
    static char d_bk_ks, d_lwekey, d_tgswkey, d_bkfft, d_F, d_io, d_tgswp;
    LweBootstrappingKey bk; *(LweKeySwitchKey **)&bk.ks = (LweKeySwitchKey *)&d_bk_ks;
    TFheGateBootstrappingParameterSet ps; *(const LweParams **)&ps.in_out_params = (const LweParams *)&d_io; *(const TGswParams **)&ps.tgsw_params = (const TGswParams *)&d_tgswp;
    TFheGateBootstrappingSecretKeySet sk;
    sk.params = &ps; sk.lwe_key = (const LweKey *)&d_lwekey; sk.tgsw_key = (const TGswKey *)&d_tgswkey;
    *(const TFheGateBootstrappingParameterSet **)&sk.cloud.params = &ps;
    *(const LweBootstrappingKey **)&sk.cloud.bk = &bk; *(const LweBootstrappingKeyFFT **)&sk.cloud.bkFFT = (const LweBootstrappingKeyFFT *)&d_bkfft;
    const Ostream *F = (const Ostream *)&d_F; const Istream *G = (const Istream *)&d_F;
    static char n_bk, n_bkfft, n_lk, n_gk; TFheGateBootstrappingParameterSet nps;
    *(const LweParams **)&nps.in_out_params = (const LweParams *)&d_io; *(const TGswParams **)&nps.tgsw_params = (const TGswParams *)&d_tgswp;
    g_new_params = &nps; g_new_bk = (LweBootstrappingKey *)&n_bk; g_new_bkfft = (LweBootstrappingKeyFFT *)&n_bkfft; g_new_lwekey = (LweKey *)&n_lk; g_new_tgswkey = (TGswKey *)&n_gk;
    bool flag;                                    /* parameter text written <=> the importer is not given the parameter set */
    const TFheGateBootstrappingParameterSet *pin = flag ? 0 : &ps;
    /* ---- cloud export */
    g_len = 0;
    write_tfheGateBootstrappingCloudKeySet(F, &sk.cloud, flag);
    int base = flag ? 1 : 0;
    A17(g_len == base + 3, "cloud export = [parameter text iff requested] + exactly three sections");
    if (flag) A17(g_id[0] == S_GBPARAMS && g_obj[0] == (const void *)&ps, "cloud export: the optional first section is the parameter set of this key");
    A17(g_id[base] == S_KSPARAMS && g_obj[base] == (const void *)bk.ks, "cloud export: key-switching parameter section of this key's key-switching key");
    A17(g_id[base + 1] == S_KSCONTENT && g_obj[base + 1] == (const void *)bk.ks, "cloud export: key-switching rows of this key");
    A17(g_id[base + 2] == S_BKCONTENT && g_obj[base + 2] == (const void *)&bk, "cloud export: bootstrapping rows of this key");
    for (int i = 0; i < TRMAX; i++) if (i < g_len) {
        A17(g_str[i] == (const void *)F, "cloud export: every section goes to the stream given");
        A17(g_id[i] != S_LWEKEYCONTENT && g_id[i] != S_TGSWKEYCONTENT && g_obj[i] != (const void *)sk.lwe_key && g_obj[i] != (const void *)sk.tgsw_key,
            "cloud export writes no secret-key section and hands no secret-key object to any writer");
    }
    keep();
    /* ---- cloud import: no key section is read; the result holds params, the key read, its FFT image; mirrors the export */
    g_registered = 0;
    TFheGateBootstrappingCloudKeySet *ck = read_new_tfheGateBootstrappingCloudKeySet(G, pin);
    for (int i = 0; i < TRMAX; i++) if (i < g_len) A17(g_id[i] != S_LWEKEYCONTENT && g_id[i] != S_TGSWKEYCONTENT, "cloud import reads no secret-key section");
    A17(ck->params == (flag ? &nps : &ps) && ck->bk == (const LweBootstrappingKey *)&n_bk && ck->bkFFT == (const LweBootstrappingKeyFFT *)&n_bkfft,
        "cloud import: the result's three fields are the parameters, the key read and its FFT image -- nothing else is produced");
    MIRRORED("cloud key set");
    A05(ck->params == (flag ? &nps : &ps) && ck->bk == (const LweBootstrappingKey *)&n_bk && ck->bkFFT == (const LweBootstrappingKeyFFT *)&n_bkfft, "cloud import: fields hold the objects read");
    A05(g_bk_io == (const void *)&d_io && g_bk_bp == (const void *)&d_tgswp, "cloud import: the bootstrapping key is read with the parameter set's own LWE and TGSW parameters (the export wrote it without them)");
    if (flag) A05(g_registered == 1 && g_registered_obj == (const void *)&nps, "cloud import: a parameter set read from the stream is registered for disposal");
    /* ---- secret export with the same flag: same sequence first, then more (strict prefix) */
    g_len = 0;
    write_tfheGateBootstrappingSecretKeySet(F, &sk, flag);
    A17(g_len > t1_len, "secret export has more sections than the cloud export (strict prefix)");
    for (int i = 0; i < TRMAX; i++) if (i < t1_len && i < g_len)
        A17(g_id[i] == t1_id[i] && g_obj[i] == t1_obj[i], "secret export begins with the cloud export's sections, same objects, same order (prefix)");
    int extra_lwe = 0, extra_tgsw = 0;
    for (int i = 0; i < TRMAX; i++) if (i >= t1_len && i < g_len) { if (g_id[i] == S_LWEKEYCONTENT && g_obj[i] == (const void *)sk.lwe_key) extra_lwe++; if (g_id[i] == S_TGSWKEYCONTENT && g_obj[i] == (const void *)sk.tgsw_key) extra_tgsw++; }
    A05(extra_lwe == 1 && extra_tgsw == 1, "secret export writes the LWE key section and the TGSW key section of this key set, once each");
    keep();
    /* ---- secret import mirrors the secret export */
    g_registered = 0;
    TFheGateBootstrappingSecretKeySet *rk = read_new_tfheGateBootstrappingSecretKeySet(G, pin);
    MIRRORED("secret key set");
    A05(rk->lwe_key == (const LweKey *)&n_lk && rk->tgsw_key == (const TGswKey *)&n_gk && rk->cloud.bk == (const LweBootstrappingKey *)&n_bk && rk->cloud.bkFFT == (const LweBootstrappingKeyFFT *)&n_bkfft && rk->params == (flag ? &nps : &ps) && rk->cloud.params == rk->params,
        "secret import: fields hold the objects read");
    free(ck); free(rk);
    VERIF_REACH();
}
#endif

#ifdef H_BKSTRUCT
/* write_lweBootstrappingKey / read_new_lweBootstrappingKey: section order and arguments, both flags symbolic */
void write_lweParams(const Ostream *F, const LweParams *p) { rec(S_LWEPARAMS, F, p); }
void write_tGswParams(const Ostream *F, const TGswParams *p) { rec(S_TGSWPARAMS, F, p); }
void write_LweKeySwitchParameters_section(const Ostream *F, const LweKeySwitchKey *ks) { rec(S_KSPARAMS, F, ks); }
void write_LweKeySwitchKey_content(const Ostream *F, const LweKeySwitchKey *ks) { rec(S_KSCONTENT, F, ks); }
void write_LweBootstrappingKey_content(const Ostream *F, const LweBootstrappingKey *bk) { rec(S_BKCONTENT, F, bk); }
static LweParams *g_rp; static TGswParams *g_rg; static int32_t g_ks_n, g_ks_t, g_ks_bb; static LweBootstrappingKey *g_nb;
static int32_t g_nb_t, g_nb_bb; static const void *g_nb_io, *g_nb_bp;
LweParams *read_new_lweParams(const Istream *F) { rec(S_LWEPARAMS, F, 0); return g_rp; }
TGswParams *read_new_tGswParams(const Istream *F) { rec(S_TGSWPARAMS, F, 0); return g_rg; }
struct LweKeySwitchParameters;                                  /* the struct itself is copied from tfhe_io.cpp into extracted.inc (R14) */
void read_lweKeySwitchParameters_section(const Istream *F, struct LweKeySwitchParameters *reps);
void read_lweKeySwitchKey_content(const Istream *F, LweKeySwitchKey *ks) { rec(S_KSCONTENT, F, ks); }
void read_LweBootstrappingKey_content(const Istream *F, LweBootstrappingKey *bk) { rec(S_BKCONTENT, F, bk); }
LweBootstrappingKey *new_LweBootstrappingKey(const int32_t ks_t, const int32_t ks_basebit, const LweParams *in_out_params, const TGswParams *bk_params) {
    rec(X_NEWBK, 0, 0); g_nb_t = ks_t; g_nb_bb = ks_basebit; g_nb_io = in_out_params; g_nb_bp = bk_params; return g_nb; }
static int g_registered;
void TfheGarbageCollector__register_param(void *p) { g_registered++; }
#include "extracted.inc"
void read_lweKeySwitchParameters_section(const Istream *F, LweKeySwitchParameters *reps) { rec(S_KSPARAMS, F, reps); reps->n = g_ks_n; reps->t = g_ks_t; reps->basebit = g_ks_bb; }
void h_bkstruct(void) {
    static char d_ks, d_F; LweParams io; TLweParams tp; TGswParams bp; *(const TLweParams **)&bp.tlwe_params = &tp;
    LweBootstrappingKey bk; *(const LweParams **)&bk.in_out_params = &io; *(const TGswParams **)&bk.bk_params = &bp; *(LweKeySwitchKey **)&bk.ks = (LweKeySwitchKey *)&d_ks;
    bool f1, f2; g_len = 0;
    write_lweBootstrappingKey((const Ostream *)&d_F, &bk, f1, f2);
    int b = (f1 ? 1 : 0) + (f2 ? 1 : 0);
    A17(g_len == b + 3, "bootstrapping-key export = the parameter texts requested + exactly three sections");
    for (int i = 0; i < TRMAX; i++) if (i < b) A17(g_id[i] == S_LWEPARAMS || g_id[i] == S_TGSWPARAMS, "only parameter text precedes the three sections, and only when requested");
    A17(g_id[b] == S_KSPARAMS && g_obj[b] == (const void *)bk.ks && g_id[b + 1] == S_KSCONTENT && g_obj[b + 1] == (const void *)bk.ks && g_id[b + 2] == S_BKCONTENT && g_obj[b + 2] == (const void *)&bk,
        "key-switching parameters, key-switching rows, bootstrapping rows of this key: these sections and no other");
    keep();
    /* reader, given the parameters exactly when the writer did not write them */
    int32_t N, k; __CPROVER_assume(N >= 1 && N <= 4096 && k >= 1 && k <= 4); *(int32_t *)&tp.N = N; *(int32_t *)&tp.k = k;
    static LweParams rio; static TLweParams rtp; static TGswParams rbp; *(const TLweParams **)&rbp.tlwe_params = &rtp; *(int32_t *)&rtp.N = N; *(int32_t *)&rtp.k = k;
    g_rp = &rio; g_rg = &rbp; static char d_newks; static LweBootstrappingKey nb; *(LweKeySwitchKey **)&nb.ks = (LweKeySwitchKey *)&d_newks; g_nb = &nb;
    int32_t kn, kt, kb; g_ks_n = kn; g_ks_t = kt; g_ks_bb = kb;
    g_registered = 0;
    LweBootstrappingKey *r = read_new_lweBootstrappingKey((const Istream *)&d_F, f1 ? 0 : &io, f2 ? 0 : &bp);
    A05(kn == N * k, "a key-switching dimension different from N*k never returns normally");
    MIRRORED("bootstrapping key");
    A05(g_registered == b, "parameters read from the stream are registered for disposal");
    int seen_new = -1, seen_ksc = -1, seen_bkc = -1, seen_ksp = -1;
    for (int i = 0; i < TRMAX; i++) if (i < g_len) { if (g_id[i] == X_NEWBK) seen_new = i; if (g_id[i] == S_KSPARAMS) seen_ksp = i;
        if (g_id[i] == S_KSCONTENT && g_obj[i] == (const void *)nb.ks) seen_ksc = i; if (g_id[i] == S_BKCONTENT && g_obj[i] == (const void *)&nb) seen_bkc = i; }
    A05(seen_ksp >= 0 && seen_ksp < seen_new && seen_new < seen_ksc && seen_new < seen_bkc && r == &nb, "the key is constructed after its shape is read and the row sections are read into the key just constructed, which is returned");
    A05(g_nb_t == kt && g_nb_bb == kb && g_nb_io == (const void *)(f1 ? &rio : &io) && g_nb_bp == (const void *)(f2 ? &rbp : &bp), "the key is constructed from the t / basebit read and the parameters given or read");
    VERIF_REACH();
}
#endif

#ifdef H_KEYOBJ
/* C05: the four single-key / key-switching-key exporters and importers (write_lweKey / read_new_lweKey, write_tLweKey / read_new_tLweKey,
 * write_tGswKey / read_new_tGswKey, write_lweKeySwitchKey / read_new_lweKeySwitchKey): sections mirrored, parameter text present exactly
 * when the importer is not given the parameters, the object constructed from the parameters given or read (key-switching key: from the
 * shape read), content read into the object just constructed, which is returned */
enum { S_TLWEPARAMS = 20, S_TLWEKEYCONTENT, X_NEWOBJ };
void write_lweParams(const Ostream *F, const LweParams *p) { rec(S_LWEPARAMS, F, p); }
void write_tLweParams(const Ostream *F, const TLweParams *p) { rec(S_TLWEPARAMS, F, p); }
void write_tGswParams(const Ostream *F, const TGswParams *p) { rec(S_TGSWPARAMS, F, p); }
void write_lweKey_content(const Ostream *F, const LweKey *k) { rec(S_LWEKEYCONTENT, F, k); }
void write_tLweKey_content(const Ostream *F, const TLweKey *k) { rec(S_TLWEKEYCONTENT, F, k); }
void write_tGswKey_content(const Ostream *F, const TGswKey *k) { rec(S_TGSWKEYCONTENT, F, k); }
void write_LweKeySwitchParameters_section(const Ostream *F, const LweKeySwitchKey *ks) { rec(S_KSPARAMS, F, ks); }
void write_LweKeySwitchKey_content(const Ostream *F, const LweKeySwitchKey *ks) { rec(S_KSCONTENT, F, ks); }
static LweParams r_lp; static TLweParams r_tp; static TGswParams r_gp; static LweKey n_lk; static TLweKey n_tk; static TGswKey n_gk; static LweKeySwitchKey n_ks;
static const void *c_par; static int32_t c_n, c_t, c_bb, in_n, in_t, in_bb; static int g_registered; static const void *g_reg_obj;
LweParams *read_new_lweParams(const Istream *F) { rec(S_LWEPARAMS, F, 0); return &r_lp; }
TLweParams *read_new_tLweParams(const Istream *F) { rec(S_TLWEPARAMS, F, 0); return &r_tp; }
TGswParams *read_new_tGswParams(const Istream *F) { rec(S_TGSWPARAMS, F, 0); return &r_gp; }
void read_lweKey_content(const Istream *F, LweKey *k) { rec(S_LWEKEYCONTENT, F, k); }
void read_tLweKey_content(const Istream *F, TLweKey *k) { rec(S_TLWEKEYCONTENT, F, k); }
void read_tGswKey_content(const Istream *F, TGswKey *k) { rec(S_TGSWKEYCONTENT, F, k); }
struct LweKeySwitchParameters;
void read_lweKeySwitchParameters_section(const Istream *F, struct LweKeySwitchParameters *reps);
void read_lweKeySwitchKey_content(const Istream *F, LweKeySwitchKey *ks) { rec(S_KSCONTENT, F, ks); }
LweKey *new_LweKey(const LweParams *p) { rec(X_NEWOBJ, 0, p); c_par = p; return &n_lk; }
TLweKey *new_TLweKey(const TLweParams *p) { rec(X_NEWOBJ, 0, p); c_par = p; return &n_tk; }
TGswKey *new_TGswKey(const TGswParams *p) { rec(X_NEWOBJ, 0, p); c_par = p; return &n_gk; }
LweKeySwitchKey *new_LweKeySwitchKey(int32_t n, int32_t t, int32_t basebit, const LweParams *out_params) { rec(X_NEWOBJ, 0, out_params); c_par = out_params; c_n = n; c_t = t; c_bb = basebit; return &n_ks; }
void TfheGarbageCollector__register_param(void *p) { g_registered++; g_reg_obj = p; }
#include "extracted.inc"
void read_lweKeySwitchParameters_section(const Istream *F, LweKeySwitchParameters *reps) { rec(S_KSPARAMS, F, reps); reps->n = in_n; reps->t = in_t; reps->basebit = in_bb; }
/* the importer's trace: stream sections only, and the object is constructed before its content is read */
static void filter2(int w, const int *id, int len) { int n = 0; for (int i = 0; i < TRMAX; i++) if (i < len && id[i] != X_NEWOBJ) f_id[w][n++] = id[i]; f_len[w] = n; }
#define MIRRORED2(what) do { filter2(0, t1_id, t1_len); filter2(1, g_id, g_len); \
    A05(f_len[0] == f_len[1], what ": the importer reads as many sections as the exporter wrote"); \
    for (int i_ = 0; i_ < TRMAX; i_++) if (i_ < f_len[0] && i_ < f_len[1]) A05(f_id[0][i_] == f_id[1][i_], what ": the importer reads the sections in the order the exporter wrote them"); } while (0)
static int new_before_content(int content_id, const void *obj) { int pn = -1, pc = -1; for (int i = 0; i < TRMAX; i++) if (i < g_len) { if (g_id[i] == X_NEWOBJ) pn = i; if (g_id[i] == content_id && g_obj[i] == obj) pc = i; } return pn >= 0 && pc > pn; }
void h_keyobj(void) {
    static char d_F; const Ostream *F = (const Ostream *)&d_F; const Istream *G = (const Istream *)&d_F; bool flag;
    static LweParams lp; static TLweParams tp; static TGswParams gp;
    /* LWE key */
    LweKey lk; lk.params = &lp; g_len = 0; write_lweKey(F, &lk, flag); keep();
    g_registered = 0; LweKey *rl = read_new_lweKey(G, flag ? 0 : &lp);
    MIRRORED2("LWE key"); A05(rl == &n_lk && c_par == (const void *)(flag ? &r_lp : &lp) && new_before_content(S_LWEKEYCONTENT, &n_lk) && g_registered == (flag ? 1 : 0), "LWE key: constructed from the parameters given or read (then registered), content read into it, returned");
    /* TLWE key (always with its parameters) */
    TLweKey tk; tk.params = &tp; g_len = 0; write_tLweKey(F, &tk); keep();
    g_registered = 0; TLweKey *rt = read_new_tLweKey(G);
    MIRRORED2("TLWE key"); A05(rt == &n_tk && c_par == (const void *)&r_tp && new_before_content(S_TLWEKEYCONTENT, &n_tk) && g_registered == 1 && g_reg_obj == (const void *)&r_tp, "TLWE key: constructed from the parameters read (registered), content read into it, returned");
    /* TGSW key */
    TGswKey gk; gk.params = &gp; g_len = 0; write_tGswKey(F, &gk, flag); keep();
    g_registered = 0; TGswKey *rg = read_new_tGswKey(G, flag ? 0 : &gp);
    MIRRORED2("TGSW key"); A05(rg == &n_gk && c_par == (const void *)(flag ? &r_gp : &gp) && new_before_content(S_TGSWKEYCONTENT, &n_gk) && g_registered == (flag ? 1 : 0), "TGSW key: constructed from the parameters given or read (then registered), content read into it, returned");
    /* key-switching key */
    LweKeySwitchKey ks; ks.out_params = &lp; int32_t a, b, c; in_n = a; in_t = b; in_bb = c; g_len = 0; write_lweKeySwitchKey(F, &ks, flag); keep();
    g_registered = 0; LweKeySwitchKey *rk = read_new_lweKeySwitchKey(G, flag ? 0 : &lp);
    MIRRORED2("key-switching key"); A05(rk == &n_ks && c_par == (const void *)(flag ? &r_lp : &lp) && c_n == a && c_t == b && c_bb == c && new_before_content(S_KSCONTENT, &n_ks) && g_registered == (flag ? 1 : 0),
        "key-switching key: constructed with the shape read from its parameter section and the output parameters given or read, rows read into it, returned");
    VERIF_REACH();
}
#endif

#ifdef H_KS
#include "extracted.inc"
#define B_n 2
#define B_T 2
#define B_BB 1
#define NROWS (B_n * B_T * (1 << B_BB))
void h_ks(void) {
    int32_t nout; __CPROVER_assume(nout >= 1 && nout <= 4096);
    LweParams op; *(int32_t *)&op.n = nout;
    static LweSample rows[NROWS]; static LweSample *l1[B_n * B_T]; static LweSample **l0[B_n];
    double vmax = -1;
    for (int r = 0; r < NROWS; r++) { rows[r].a = verif_alloc((size_t)nout * sizeof(Torus32)); double v; __CPROVER_assume(v >= 0 && v <= 1); rows[r].current_variance = v; if (v > vmax) vmax = v; }
    for (int p = 0; p < B_n * B_T; p++) l1[p] = rows + (1 << B_BB) * p;
    for (int p = 0; p < B_n; p++) l0[p] = l1 + B_T * p;
    LweKeySwitchKey ks; ks.n = B_n; ks.t = B_T; ks.basebit = B_BB; ks.base = 1 << B_BB; ks.out_params = &op; ks.ks0_raw = rows; ks.ks1_raw = l1; ks.ks = l0;
    stream_init();
    write_LweKeySwitchKey_content((const Ostream *)0, &ks);
    A17(g_wcount == 2 + 2 * NROWS, "[proof step] key-switching rows: tag, one variance, then a and b of every row: that many writes and no other");
    A17(g_wbytes == 4 + 8 + (uint64_t)NROWS * (4 * (uint64_t)nout + 4), "key-switching rows: exported size = 4 + 8 + n*t*base*(n_out+1)*4 bytes, fixed by the parameters");
    A17(g_wtag == LWE_KEYSWITCH_KEY_TYPE_UID, "key-switching rows begin with their type tag");
    A05(g_wtag == LWE_KEYSWITCH_KEY_TYPE_UID, "key-switching rows begin with the tag their reader demands");
    A05(g_wvar == vmax, "the single variance stored is the maximum over the rows");
    if (g_w == 0) A17(g_wlen == 4, "[proof step] write 0 is the 4-byte tag");
    if (g_w == 1) A17(g_wlen == 8, "[proof step] write 1 is the 8-byte variance");
    if (g_w >= 2 && g_w < 2 + 2 * NROWS) {
        uint32_t r = (g_w - 2) / 2;
        if ((g_w & 1) == 0) A17(g_wptr == (const void *)rows[r].a && g_wlen == 4 * (uint64_t)nout, "[proof step] even writes: the mask of row (i,j,k) in index order, n_out coefficients");
        else A17(g_wptr == (const void *)&rows[r].b && g_wlen == 4, "[proof step] odd writes: the b of the same row");
    }
    /* every row field is written exactly once (C05: nothing of the object is lost): row q's mask and b are the sources of some write */
    double vin; __CPROVER_assume(vin >= 0 && vin <= 1); g_rvar_in = vin;
    read_lweKeySwitchKey_content((const Istream *)0, &ks);
    SAME_FIELDS(g_wcount, g_w >= 2);
    A05(g_wcount >= 2 + 2 * NROWS, "at least tag, variance and two fields per row are exported");
    uint32_t q; __CPROVER_assume(q < NROWS);
    A05(rows[q].current_variance == vin, "every imported row carries the stored (maximum) variance");
    VERIF_REACH();
}
#endif

#ifdef H_BK
#include "extracted.inc"
#define B_n 2
void h_bk(void) {
    int32_t N; __CPROVER_assume(N >= 1 && N <= 4096);
    LweParams ip; *(int32_t *)&ip.n = B_n; TLweParams tp; *(int32_t *)&tp.N = N; *(int32_t *)&tp.k = VERIF_K; TGswParams gp; *(const TLweParams **)&gp.tlwe_params = &tp; *(int32_t *)&gp.kpl = KPL;
    static TorusPolynomial polys[B_n][KPL][VERIF_K + 1]; static TLweSample rows[B_n][KPL]; static TGswSample gs[B_n];
    double vmax = -1;
    for (int i = 0; i < B_n; i++) { for (int r = 0; r < KPL; r++) { for (int q = 0; q <= VERIF_K; q++) polys[i][r][q].coefsT = verif_alloc((size_t)N * sizeof(Torus32));
        rows[i][r].a = polys[i][r]; rows[i][r].b = polys[i][r] + VERIF_K; double v; __CPROVER_assume(v >= 0 && v <= 1); rows[i][r].current_variance = v; if (v > vmax) vmax = v; } gs[i].all_sample = rows[i]; }
    LweBootstrappingKey bk; *(const LweParams **)&bk.in_out_params = &ip; *(const TGswParams **)&bk.bk_params = &gp; bk.bk = gs;
    stream_init();
    write_LweBootstrappingKey_content((const Ostream *)0, &bk);
    const uint32_t NW = B_n * KPL * (VERIF_K + 1);
    A17(g_wcount == 2 + NW, "[proof step] bootstrapping rows: tag, one variance, then the k+1 polynomials of every TLWE row: that many writes and no other");
    A17(g_wbytes == 4 + 8 + (uint64_t)NW * 4 * (uint64_t)N, "bootstrapping rows: exported size = 4 + 8 + n*(k+1)*l*(k+1)*N*4 bytes, fixed by the parameters");
    A17(g_wtag == LWE_BOOTSTRAPPING_KEY_TYPE_UID, "bootstrapping rows begin with their type tag");
    A05(g_wtag == LWE_BOOTSTRAPPING_KEY_TYPE_UID, "bootstrapping rows begin with the tag their reader demands");
    A05(g_wvar == vmax, "the single variance stored is the maximum over the rows");
    if (g_w == 0) A17(g_wlen == 4, "[proof step] write 0 is the 4-byte tag");
    if (g_w == 1) A17(g_wlen == 8, "[proof step] write 1 is the 8-byte variance");
    if (g_w >= 2 && g_w < 2 + NW) {
        uint32_t x = g_w - 2, q = x % (VERIF_K + 1), r = (x / (VERIF_K + 1)) % KPL, i = x / ((VERIF_K + 1) * KPL);
        A17(g_wptr == (const void *)polys[i][r][q].coefsT && g_wlen == 4 * (uint64_t)N, "[proof step] write w: polynomial q of TLWE row r of TGSW sample i, in index order, N coefficients");
    }
    double vin; __CPROVER_assume(vin >= 0 && vin <= 1); g_rvar_in = vin;
    read_LweBootstrappingKey_content((const Istream *)0, &bk);
    SAME_FIELDS(g_wcount, g_w >= 2);
    A05(g_wcount >= 2 + NW, "at least tag, variance and k+1 polynomials per row are exported");
    uint32_t qi, qr; __CPROVER_assume(qi < B_n && qr < KPL);
    A05(rows[qi][qr].current_variance == vin, "every imported row carries the stored (maximum) variance");
    VERIF_REACH();
}
#endif

#ifdef H_KEYS
#include "extracted.inc"
void h_keys(void) {
    int32_t n, N; __CPROVER_assume(n >= 1 && n <= VERIF_NMAX && N >= 1 && N <= VERIF_NMAX);
    LweParams par; *(int32_t *)&par.n = n; LweKey key; key.params = &par; key.key = verif_alloc((size_t)n * sizeof(int32_t));
    TLweParams tp; *(int32_t *)&tp.N = N; *(int32_t *)&tp.k = VERIF_K;
    IntPolynomial kp[VERIF_K]; for (int i = 0; i < VERIF_K; i++) kp[i].coefs = verif_alloc((size_t)N * sizeof(int32_t));
    TGswParams gp; *(const TLweParams **)&gp.tlwe_params = &tp; TGswKey gk; gk.params = &gp; gk.key = kp; TLweKey tk; tk.params = &tp; tk.key = kp;
    stream_init();
    write_lweKey_content((const Ostream *)0, &key);
    A17(g_wbytes == 4 + 4 * (uint64_t)n, "LWE key section: tag + n key bits as 32-bit words -- non-empty, so the secret export is strictly longer");
    A05(g_wcount == 2 && g_wtag == LWE_KEY_TYPE_UID && (g_w != 1 || (g_wptr == (const void *)key.key && g_wlen == 4 * (uint64_t)n)), "LWE key section: tag, then the whole key array");
    read_lweKey_content((const Istream *)0, &key); SAME_FIELDS(g_wcount, g_w >= 1);
    stream_init();
    write_tGswKey_content((const Ostream *)0, &gk);
    A17(g_wbytes == 4 + (uint64_t)VERIF_K * 4 * (uint64_t)N, "TGSW key section: tag + k polynomials of N coefficients -- non-empty");
    A05(g_wcount == 1 + VERIF_K && g_wtag == TGSW_KEY_TYPE_UID && (g_w < 1 || g_w > VERIF_K || (g_wptr == (const void *)kp[g_w - 1].coefs && g_wlen == 4 * (uint64_t)N)), "TGSW key section: tag, then every key polynomial, whole");
    read_tGswKey_content((const Istream *)0, &gk); SAME_FIELDS(g_wcount, g_w >= 1);
#ifdef PROP_C05
    stream_init();
    write_tLweKey_content((const Ostream *)0, &tk);
    A05(g_wcount == 1 + VERIF_K && g_wtag == TLWE_KEY_TYPE_UID && (g_w < 1 || g_w > VERIF_K || (g_wptr == (const void *)kp[g_w - 1].coefs && g_wlen == 4 * (uint64_t)N)), "TLWE key section: tag, then every key polynomial, whole");
    read_tLweKey_content((const Istream *)0, &tk); SAME_FIELDS(g_wcount, g_w >= 1);
    /* ciphertext sections */
    LweSample s; s.a = verif_alloc((size_t)n * sizeof(Torus32));
    stream_init();
    write_lweSample((const Ostream *)0, &s, &par);
    A05(g_wcount == 4 && g_wtag == LWE_SAMPLE_TYPE_UID, "LWE sample section: tag, mask, b, variance");
    if (g_w == 1) A05(g_wptr == (const void *)s.a && g_wlen == 4 * (uint64_t)n, "LWE sample: the whole mask");
    if (g_w == 2) A05(g_wptr == (const void *)&s.b && g_wlen == 4, "LWE sample: b");
    if (g_w == 3) A05(g_wptr == (const void *)&s.current_variance && g_wlen == 8, "LWE sample: its own variance, in full precision (binary)");
    read_lweSample((const Istream *)0, &s, &par); SAME_FIELDS(g_wcount, g_w >= 1);
    TorusPolynomial polys[VERIF_K + 1]; for (int i = 0; i <= VERIF_K; i++) polys[i].coefsT = verif_alloc((size_t)N * sizeof(Torus32));
    TLweSample ts; ts.a = polys; ts.b = polys + VERIF_K;
    stream_init();
    write_tLweSample((const Ostream *)0, &ts, &tp);
    A05(g_wcount == 3 + VERIF_K && g_wtag == TLWE_SAMPLE_TYPE_UID, "TLWE sample section: tag, k+1 polynomials, variance");
    if (g_w >= 1 && g_w <= VERIF_K + 1) A05(g_wptr == (const void *)polys[g_w - 1].coefsT && g_wlen == 4 * (uint64_t)N, "TLWE sample: polynomial w-1, whole");
    if (g_w == VERIF_K + 2) A05(g_wptr == (const void *)&ts.current_variance && g_wlen == 8, "TLWE sample: its own variance");
    read_tLweSample((const Istream *)0, &ts, &tp); SAME_FIELDS(g_wcount, g_w >= 1);
#endif
    VERIF_REACH();
}
#endif

#ifdef H_TGSW
#include "extracted.inc"
/* nested sections: a TGSW sample is its tag followed by (k+1)l complete TLWE sample sections */
void h_tgsw(void) {
    int32_t N; __CPROVER_assume(N >= 1 && N <= 4096);
    TLweParams tp; *(int32_t *)&tp.N = N; *(int32_t *)&tp.k = VERIF_K; TGswParams gp; *(const TLweParams **)&gp.tlwe_params = &tp; *(int32_t *)&gp.kpl = KPL;
    TorusPolynomial polys[KPL][VERIF_K + 1]; TLweSample rows[KPL];
    for (int r = 0; r < KPL; r++) { for (int i = 0; i <= VERIF_K; i++) polys[r][i].coefsT = verif_alloc((size_t)N * sizeof(Torus32)); rows[r].a = polys[r]; rows[r].b = polys[r] + VERIF_K; }
    TGswSample s; s.all_sample = rows;
    stream_init();
    write_tGswSample((const Ostream *)0, &s, &gp);
    const uint32_t per = VERIF_K + 3;
    A05(g_wcount == 1 + KPL * per && g_wtag == TGSW_SAMPLE_TYPE_UID, "TGSW sample section: tag, then (k+1)l TLWE sample sections");
    if (g_w >= 1 && g_w < 1 + KPL * per) { uint32_t x = g_w - 1, r = x / per, f = x % per;
        if (f >= 1 && f <= VERIF_K + 1) A05(g_wptr == (const void *)polys[r][f - 1].coefsT && g_wlen == 4 * (uint64_t)N, "TGSW sample: polynomial f-1 of row r, whole");
        if (f == VERIF_K + 2) A05(g_wptr == (const void *)&rows[r].current_variance && g_wlen == 8, "TGSW sample: the row's own variance"); }
    read_tGswSample((const Istream *)0, &s, &gp);      /* inner tags: arbitrary words; the paths on which the reader accepts them remain */
    SAME_FIELDS(g_wcount, g_w >= 1 && (g_w - 1) % per != 0);
    VERIF_REACH();
}
#endif
