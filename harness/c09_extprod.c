/* C09 (and C15): structure of the external product, of the gadget rows and of the FFT image of a TGSW sample.
 * k = VERIF_K, l = VERIF_L enumerated (loops over rows unwound, complete for the instance); N passes through symbolically.
 * The polynomial products themselves (tLweAddMulRTo / tLweFFTAddMulRTo, FFT transforms) are monitors: their numerical
 * content is the assumed FFT contract (C10 territory). */
#include "verif_prelude.h"
#ifndef VERIF_K
#define VERIF_K 1
#endif
#ifndef VERIF_L
#define VERIF_L 2
#endif
#define KPL ((VERIF_K + 1) * VERIF_L)
static int seq, bad, live;

#ifdef H_EXTMUL
static IntPolynomial *g_dec; static int s_dec, s_clear, n_mul, s_firstmul, n_del, ordered;
IntPolynomial *new_IntPolynomial_array(int32_t nbelts, const int32_t N) { if (nbelts != KPL) bad++; g_dec = verif_alloc((size_t)KPL * sizeof(IntPolynomial)); live++; return g_dec; }
void delete_IntPolynomial_array(int32_t nbelts, IntPolynomial *obj) { if (obj != g_dec || nbelts != KPL) bad++; n_del++; live--; free(obj); }
static TLweSample *x_acc; static const TGswSample *x_gsw; static const TGswParams *x_par; static const TLweParams *x_tp;
static const TLweSample *x_src;      /* what is decomposed: the accumulator itself (MulTo) or the separate operand b (tGswExternProduct) */
void tGswTLweDecompH(IntPolynomial *result, const TLweSample *sample, const TGswParams *params) { if (result != g_dec || sample != x_src || params != x_par) bad++; s_dec = ++seq; }
void tLweClear(TLweSample *result, const TLweParams *params) { if (result != x_acc || params != x_tp) bad++; s_clear = ++seq; }
void tLweAddMulRTo(TLweSample *result, const IntPolynomial *p, const TLweSample *sample, const TLweParams *params) {
    ++seq; if (n_mul == 0) s_firstmul = seq;
    if (result != x_acc || p != &g_dec[n_mul] || sample != &x_gsw->all_sample[n_mul] || params != x_tp) bad++;   /* row i multiplies digit i, in order */
    n_mul++;
}
#include "extracted.inc"
void h_tGswExternMulToTLwe(void) {
    TLweParams tp; TGswParams gp; *(const TLweParams **)&gp.tlwe_params = &tp; *(int32_t *)&gp.kpl = KPL; *(int32_t *)&gp.l = VERIF_L; *(int32_t *)&tp.k = VERIF_K;
    int32_t N; __CPROVER_assume(N >= 1 && N <= VERIF_NMAX); *(int32_t *)&tp.N = N;
    TLweSample acc; TGswSample gsw; TLweSample rows[KPL]; gsw.all_sample = rows;
    x_acc = &acc; x_gsw = &gsw; x_par = &gp; x_tp = &tp; seq = bad = live = 0; s_dec = s_clear = n_mul = s_firstmul = n_del = 0;
#ifdef EXT_PRODUCT
    TLweSample opb; x_src = &opb;
    tGswExternProduct(&acc, &gsw, &opb, &gp);
    __CPROVER_assert(s_dec > 0 && s_clear > 0 && s_clear < s_firstmul, "the operand b is decomposed, the result is cleared before the products are accumulated into it");
#else
    x_src = &acc;
    tGswExternMulToTLwe(&acc, &gsw, &gp);
    __CPROVER_assert(s_dec == 1 && s_clear == 2 && s_firstmul == 3, "the accumulator is decomposed BEFORE it is cleared, then the products are accumulated");
#endif
    __CPROVER_assert(n_mul == KPL && bad == 0, "exactly one multiply-accumulate per row i < (k+1)l, with digit polynomial i and row i, into the accumulator");
    __CPROVER_assert(n_del == 1 && live == 0, "decomposition buffer released");
    VERIF_REACH();
}
#endif

#ifdef H_FFTEXTMUL
static IntPolynomial *g_deca; static LagrangeHalfCPolynomial *g_fft; static TLweSampleFFT *g_tmpa; static int n_dec, n_ifft, s_clear, n_mul, s_conv, n_del, s_lastdec, s_lastifft, s_firstmul;
IntPolynomial *new_IntPolynomial_array(int32_t nbelts, const int32_t N) { if (nbelts != KPL) bad++; g_deca = verif_alloc((size_t)KPL * sizeof(IntPolynomial)); live++; return g_deca; }
void delete_IntPolynomial_array(int32_t nbelts, IntPolynomial *obj) { if (obj != g_deca || nbelts != KPL) bad++; n_del++; live--; free(obj); }
LagrangeHalfCPolynomial *new_LagrangeHalfCPolynomial_array(int32_t nbelts, const int32_t N) { if (nbelts != KPL) bad++; g_fft = verif_alloc((size_t)KPL * sizeof(LagrangeHalfCPolynomial)); live++; return g_fft; }
void delete_LagrangeHalfCPolynomial_array(int32_t nbelts, LagrangeHalfCPolynomial *obj) { if (obj != g_fft || nbelts != KPL) bad++; n_del++; live--; free(obj); }
TLweSampleFFT *new_TLweSampleFFT(const TLweParams *params) { g_tmpa = verif_alloc(sizeof(TLweSampleFFT)); live++; return g_tmpa; }
void delete_TLweSampleFFT(TLweSampleFFT *obj) { if (obj != g_tmpa) bad++; n_del++; live--; free(obj); }
static TLweSample *x_acc; static const TGswSampleFFT *x_gsw; static const TGswParams *x_par; static const TLweParams *x_tp;
void tGswTorus32PolynomialDecompH(IntPolynomial *result, const TorusPolynomial *sample, const TGswParams *params) {
    if (result != g_deca + n_dec * VERIF_L || sample != x_acc->a + n_dec || params != x_par) bad++; n_dec++; s_lastdec = ++seq; }
void IntPolynomial_ifft(LagrangeHalfCPolynomial *result, const IntPolynomial *p) { if (result != g_fft + n_ifft || p != g_deca + n_ifft) bad++; n_ifft++; s_lastifft = ++seq; }
void tLweFFTClear(TLweSampleFFT *result, const TLweParams *params) { if (result != g_tmpa || params != x_tp) bad++; s_clear = ++seq; }
void tLweFFTAddMulRTo(TLweSampleFFT *result, const LagrangeHalfCPolynomial *p, const TLweSampleFFT *sample, const TLweParams *params) {
    ++seq; if (n_mul == 0) s_firstmul = seq;
    if (result != g_tmpa || p != g_fft + n_mul || sample != x_gsw->all_samples + n_mul || params != x_tp) bad++; n_mul++; }
void tLweFromFFTConvert(TLweSample *result, const TLweSampleFFT *source, const TLweParams *params) { if (result != x_acc || source != g_tmpa || params != x_tp) bad++; s_conv = ++seq; }
#include "extracted.inc"
void h_tGswFFTExternMulToTLwe(void) {
    TLweParams tp; TGswParams gp; *(const TLweParams **)&gp.tlwe_params = &tp; *(int32_t *)&gp.kpl = KPL; *(int32_t *)&gp.l = VERIF_L; *(int32_t *)&tp.k = VERIF_K;
    int32_t N; __CPROVER_assume(N >= 1 && N <= VERIF_NMAX); *(int32_t *)&tp.N = N;
    TLweSample acc; TorusPolynomial polys[VERIF_K + 1]; acc.a = polys; acc.b = polys + VERIF_K;
    TGswSampleFFT gsw; TLweSampleFFT rows[KPL]; gsw.all_samples = rows;
    x_acc = &acc; x_gsw = &gsw; x_par = &gp; x_tp = &tp; seq = bad = live = 0; n_dec = n_ifft = s_clear = n_mul = s_conv = n_del = s_lastdec = s_lastifft = s_firstmul = 0;
    tGswFFTExternMulToTLwe(&acc, &gsw, &gp);
    __CPROVER_assert(n_dec == VERIF_K + 1 && n_ifft == KPL && n_mul == KPL && bad == 0, "k+1 decompositions (polynomial i into digits i*l..), one transform per digit polynomial, one multiply-accumulate per row with its own digit");
    __CPROVER_assert(s_lastdec < s_lastifft && s_lastifft < s_clear && s_clear < s_firstmul && s_conv == seq, "decompose, transform, clear, accumulate, and only then write the accumulator back");
    __CPROVER_assert(n_del == 3 && live == 0, "the three temporaries are released");
    VERIF_REACH();
}
#endif

#ifdef H_ROWS
/* gadget rows: row (bloc,i) receives message*h[i] on polynomial `bloc`, coefficient 0, and nothing else */
#include "extracted.inc"
static TGswSample G; static TLweSample rows[KPL]; static TLweSample *blocs[VERIF_K + 1]; static TorusPolynomial polys[KPL][VERIF_K + 1];
void h_gadget_rows(void) {
    TLweParams tp; TGswParams gp; *(const TLweParams **)&gp.tlwe_params = &tp; *(int32_t *)&gp.kpl = KPL; *(int32_t *)&gp.l = VERIF_L; *(int32_t *)&tp.k = VERIF_K;
    int32_t N; __CPROVER_assume(N >= 1 && N <= VERIF_NMAX); *(int32_t *)&tp.N = N;
    Torus32 h[VERIF_L]; gp.h = h;
    for (int r = 0; r < KPL; r++) { rows[r].a = polys[r]; rows[r].b = polys[r] + VERIF_K; for (int q = 0; q <= VERIF_K; q++) polys[r][q].coefsT = verif_alloc((size_t)N * sizeof(Torus32)); }
    for (int b = 0; b <= VERIF_K; b++) blocs[b] = rows + b * VERIF_L;
    G.all_sample = rows; G.bloc_sample = blocs;
    int gr, gq; int32_t gj; __CPROVER_assume(gr >= 0 && gr < KPL && gq >= 0 && gq <= VERIF_K && gj >= 0 && gj < N);
    Torus32 old = polys[gr][gq].coefsT[gj];
#ifdef VERIF_MCONST
    const int32_t in_msg = (VERIF_MCONST);   /* enumerated message (symbolic 32x32 multipliers are not decided, DESIGN 8.2) */
#else
    int32_t in_msg;
#endif
    Torus32 hh = h[gr % VERIF_L];
#ifdef ROWS_INT
    tGswAddMuIntH(&G, in_msg, &gp);
    uint32_t add = (uint32_t)in_msg * (uint32_t)hh;
#else
    tGswAddH(&G, &gp);
    uint32_t add = (uint32_t)hh;
#endif
    int diag = (gq == gr / VERIF_L) && gj == 0;
    __CPROVER_assert(U32(polys[gr][gq].coefsT[gj]) == U32(old) + (diag ? add : 0u), "row (bloc,i): message*h[i] is added to coefficient 0 of polynomial bloc (block diagonal) and nothing else changes");
    __CPROVER_assert(h[gr % VERIF_L] == hh, "gadget weights untouched");
    VERIF_REACH();
}
#endif

#ifdef H_ADDMUH
/* tGswAddMuH: row (bloc,i) receives message[j]*h[i] on coefficient j of polynomial `bloc`, for every j, and nothing else changes.
 * N symbolic (loop contracts on all three loops); watched coordinate (row, polynomial, coefficient) arbitrary. */
int32_t g_b, g_i, g_q, g_j; uint32_t g_w0, g_prod;
#include "c_gadget.h"
#include "extracted.inc"
static TGswSample G; static TLweSample rows[KPL]; static TLweSample *blocs[VERIF_K + 1]; static TorusPolynomial polys[KPL][VERIF_K + 1];
void h_tGswAddMuH(void) {
    TLweParams tp; TGswParams gp; *(const TLweParams **)&gp.tlwe_params = &tp; *(int32_t *)&gp.kpl = KPL; *(int32_t *)&gp.l = VERIF_L; *(int32_t *)&tp.k = VERIF_K;
    int32_t N; __CPROVER_assume(N >= 1 && N <= VERIF_NMAX); *(int32_t *)&tp.N = N;
    Torus32 h[VERIF_L]; gp.h = h;
#ifdef VERIF_BGBIT
    for (int i = 0; i < VERIF_L; i++) h[i] = (Torus32)(1u << (32 - (i + 1) * VERIF_BGBIT));     /* the gadget weights the TGswParams constructor computes (C12 proves that) */
#endif
    for (int r = 0; r < KPL; r++) { rows[r].a = polys[r]; rows[r].b = polys[r] + VERIF_K; for (int q = 0; q <= VERIF_K; q++) polys[r][q].coefsT = verif_alloc((size_t)N * sizeof(Torus32)); }
    for (int b = 0; b <= VERIF_K; b++) blocs[b] = rows + b * VERIF_L;
    G.all_sample = rows; G.bloc_sample = blocs;
    IntPolynomial msg; *(int32_t *)&msg.N = N; msg.coefs = verif_alloc((size_t)N * sizeof(int32_t));
    int gr, gq; int32_t gj; __CPROVER_assume(gr >= 0 && gr < KPL && gq >= 0 && gq <= VERIF_K && gj >= 0 && gj < N);
    g_b = gr / VERIF_L; g_i = gr % VERIF_L; g_q = gq; g_j = gj;
    g_w0 = U32(polys[gr][gq].coefsT[gj]); g_prod = U32(msg.coefs[gj]) * U32(h[g_i]);
    int32_t m_old = msg.coefs[gj]; Torus32 h_old = h[g_i];
    tGswAddMuH(&G, &msg, &gp);
    __CPROVER_assert(U32(polys[gr][gq].coefsT[gj]) == g_w0 + ((gq == gr / VERIF_L) ? g_prod : 0u),
                     "row (bloc,i): message[j]*h[i] is added to coefficient j of polynomial bloc (block diagonal), once, and nothing else changes");
    __CPROVER_assert(h[g_i] == h_old && msg.coefs[gj] == m_old, "gadget weights and message untouched");
    VERIF_REACH();
}
#endif

#ifdef H_TRIVIAL
/* tGswNoiselessTrivial = clear, then += message*H */
static int n_c, n_a, ord_bad; static const void *c_r, *c_p, *a_r, *a_m, *a_p;
void tGswClear(TGswSample *result, const TGswParams *params) { if (n_a) ord_bad = 1; n_c++; c_r = result; c_p = params; }
void tGswAddMuH(TGswSample *result, const IntPolynomial *message, const TGswParams *params) { if (n_c != 1) ord_bad = 1; n_a++; a_r = result; a_m = message; a_p = params; }
#include "extracted.inc"
void h_tGswNoiselessTrivial(void) {
    static TGswSample r; static IntPolynomial m; static TGswParams gp; n_c = n_a = ord_bad = 0;
    tGswNoiselessTrivial(&r, &m, &gp);
    __CPROVER_assert(n_c == 1 && n_a == 1 && !ord_bad && c_r == (const void *)&r && c_p == (const void *)&gp && a_r == (const void *)&r && a_m == (const void *)&m && a_p == (const void *)&gp,
                     "noiseless trivial TGSW sample: the result is cleared once, then message*H is added once, in this order");
    VERIF_REACH();
}
#endif

#ifdef H_TLWEROW
/* TLWE-level wrappers of the external product: every one of the k+1 polynomials is handled exactly once, slot i with slot i
 * (transforms, clear, multiply-accumulate in both domains); the variance annotation of the coefficient-domain multiply-accumulate */
static int n_op; static const void *r_base, *s_base, *p_arg; enum { OP_IFFT = 1, OP_FFT, OP_CLR, OP_FMUL, OP_CMUL }; static int op_kind;
static void step(int kind, const void *r, const void *s, const void *p, size_t rsz, size_t ssz) {
    if (kind != op_kind || (const char *)r != (const char *)r_base + (size_t)n_op * rsz || (s_base && (const char *)s != (const char *)s_base + (size_t)n_op * ssz) || p != p_arg) bad++; n_op++; }
void TorusPolynomial_ifft(LagrangeHalfCPolynomial *result, const TorusPolynomial *p) { step(OP_IFFT, result, p, 0, sizeof(LagrangeHalfCPolynomial), sizeof(TorusPolynomial)); }
void TorusPolynomial_fft(TorusPolynomial *result, const LagrangeHalfCPolynomial *p) { step(OP_FFT, result, p, 0, sizeof(TorusPolynomial), sizeof(LagrangeHalfCPolynomial)); }
void LagrangeHalfCPolynomialClear(LagrangeHalfCPolynomial *result) { step(OP_CLR, result, 0, 0, sizeof(LagrangeHalfCPolynomial), 0); }
void LagrangeHalfCPolynomialAddMul(LagrangeHalfCPolynomial *accum, const LagrangeHalfCPolynomial *a, const LagrangeHalfCPolynomial *b) { step(OP_FMUL, accum, b, a, sizeof(LagrangeHalfCPolynomial), sizeof(LagrangeHalfCPolynomial)); }
void torusPolynomialAddMulR(TorusPolynomial *result, const IntPolynomial *poly1, const TorusPolynomial *poly2) { step(OP_CMUL, result, poly2, poly1, sizeof(TorusPolynomial), sizeof(TorusPolynomial)); }
#include "extracted.inc"     /* includes the REAL intPolynomialNormSq2 (32-bit wrapping sum of squares) */
#define BEGIN(kind, r, s, p) do { op_kind = (kind); r_base = (r); s_base = (s); p_arg = (p); n_op = 0; bad = 0; } while (0)
void h_tlwe_rowwise(void) {
    TLweParams tp; *(int32_t *)&tp.k = VERIF_K;
    static TorusPolynomial c1[VERIF_K + 1], c2[VERIF_K + 1]; static LagrangeHalfCPolynomial f1[VERIF_K + 1], f2[VERIF_K + 1];
    TLweSample cs, cd; cs.a = c1; cs.b = c1 + VERIF_K; cd.a = c2; cd.b = c2 + VERIF_K; TLweSampleFFT fs, fd; fs.a = f1; fs.b = f1 + VERIF_K; fd.a = f2; fd.b = f2 + VERIF_K;
    double v; __CPROVER_assume(v >= 0.0 && v <= 1.0); cs.current_variance = v; fs.current_variance = v;
    BEGIN(OP_IFFT, f2, c1, 0); tLweToFFTConvert(&fd, &cs, &tp);
    __CPROVER_assert(n_op == VERIF_K + 1 && bad == 0 && fd.current_variance == v, "to the FFT domain: polynomial i into slot i, each once; variance annotation carried over");
    BEGIN(OP_FFT, c2, f1, 0); tLweFromFFTConvert(&cd, &fs, &tp);
    __CPROVER_assert(n_op == VERIF_K + 1 && bad == 0 && cd.current_variance == v, "back from the FFT domain: polynomial i into slot i, each once; variance annotation carried over");
    BEGIN(OP_CLR, f2, 0, 0); tLweFFTClear(&fd, &tp);
    __CPROVER_assert(n_op == VERIF_K + 1 && bad == 0 && fd.current_variance == 0.0, "FFT-domain clear: every polynomial once, variance 0");
    static LagrangeHalfCPolynomial fp; BEGIN(OP_FMUL, f2, f1, &fp); tLweFFTAddMulRTo(&fd, &fp, &fs, &tp);
    __CPROVER_assert(n_op == VERIF_K + 1 && bad == 0, "FFT-domain multiply-accumulate: slot i += p * slot i, each once, the same p");
    /* the IEEE product of two symbolic doubles is not decided by any installed back end (DESIGN 8.2): concrete digit polynomials and sample variance.
     * Second polynomial: non-zero, but its 32-bit sum of squares wraps to 0 with the real norm function -- every polynomial must still be accumulated */
    static int32_t pc[4] = {1, 2, 0, 0}; IntPolynomial ip; *(int32_t *)&ip.N = 4; ip.coefs = pc;
    double v0; __CPROVER_assume(v0 >= 0.0 && v0 <= 1.0); cd.current_variance = v0; cs.current_variance = 0x1p-20;
    BEGIN(OP_CMUL, c2, c1, &ip); tLweAddMulRTo(&cd, &ip, &cs, &tp);
    __CPROVER_assert(n_op == VERIF_K + 1 && bad == 0, "coefficient-domain multiply-accumulate: polynomial i += p * polynomial i, each once, the same p");
    __CPROVER_assert(cd.current_variance == v0 + 5.0 * 0x1p-20, "variance annotation += ||p||_2^2 * variance of the sample (instance: p = 1 + 2X, variance 2^-20)");
    static int32_t pw[4] = {-32768, -32768, -32768, -32768}; IntPolynomial iw; *(int32_t *)&iw.N = 4; iw.coefs = pw;
    BEGIN(OP_CMUL, c2, c1, &iw); tLweAddMulRTo(&cd, &iw, &cs, &tp);
    __CPROVER_assert(n_op == VERIF_K + 1 && bad == 0, "a non-zero digit polynomial is multiply-accumulated whatever its norm annotation evaluates to (4 coefficients -2^15: the 32-bit sum of squares is 0)");
    VERIF_REACH();
}
#endif

#ifdef H_FFTMUL
/* polynomials.cpp: the three FFT-based ring products are  result (=, +=, -=) fft( ifft(poly1) * ifft(poly2) ), with the degree taken from poly1,
 * three Lagrange temporaries (and one coefficient temporary for += / -=) that are released.  The four transforms / the Lagrange product are
 * monitors (ASSUMED: C10); what is decided is the wiring. */
static LagrangeHalfCPolynomial *g_tmp; static TorusPolynomial *g_tmpr; static int n_newl, n_dell, n_newt, n_delt; static int32_t m_N;
static int s_i1, s_i2, s_mul, s_fft, s_acc; static const void *f_out; static int acc_kind; static const void *acc_res, *acc_src;
static const IntPolynomial *m_p1; static const TorusPolynomial *m_p2;
LagrangeHalfCPolynomial *new_LagrangeHalfCPolynomial_array(int32_t nbelts, const int32_t N) { if (nbelts != 3 || N != m_N) bad++; n_newl++; live++; g_tmp = verif_alloc(3 * sizeof(LagrangeHalfCPolynomial)); return g_tmp; }
void delete_LagrangeHalfCPolynomial_array(int32_t nbelts, LagrangeHalfCPolynomial *obj) { if (nbelts != 3 || obj != g_tmp) bad++; n_dell++; live--; free(obj); }
TorusPolynomial *new_TorusPolynomial(const int32_t N) { if (N != m_N) bad++; n_newt++; live++; g_tmpr = verif_alloc(sizeof(TorusPolynomial)); return g_tmpr; }
void delete_TorusPolynomial(TorusPolynomial *obj) { if (obj != g_tmpr) bad++; n_delt++; live--; free(obj); }
void IntPolynomial_ifft(LagrangeHalfCPolynomial *result, const IntPolynomial *p) { if (result != g_tmp + 0 || p != m_p1) bad++; s_i1 = ++seq; }
void TorusPolynomial_ifft(LagrangeHalfCPolynomial *result, const TorusPolynomial *p) { if (result != g_tmp + 1 || p != m_p2) bad++; s_i2 = ++seq; }
void LagrangeHalfCPolynomialMul(LagrangeHalfCPolynomial *result, const LagrangeHalfCPolynomial *a, const LagrangeHalfCPolynomial *b) { if (result != g_tmp + 2 || a != g_tmp + 0 || b != g_tmp + 1 || !s_i1 || !s_i2) bad++; s_mul = ++seq; }
void TorusPolynomial_fft(TorusPolynomial *result, const LagrangeHalfCPolynomial *p) { if (p != g_tmp + 2 || !s_mul) bad++; f_out = result; s_fft = ++seq; }
void torusPolynomialAddTo(TorusPolynomial *result, const TorusPolynomial *poly2) { acc_kind = 1; acc_res = result; acc_src = poly2; s_acc = ++seq; }
void torusPolynomialSubTo(TorusPolynomial *result, const TorusPolynomial *poly2) { acc_kind = 2; acc_res = result; acc_src = poly2; s_acc = ++seq; }
#include "extracted.inc"
#define FRESET() do { seq = bad = live = 0; n_newl = n_dell = n_newt = n_delt = 0; s_i1 = s_i2 = s_mul = s_fft = s_acc = 0; acc_kind = 0; f_out = 0; } while (0)
void h_fftmul(void) {
    static TorusPolynomial res, p2; IntPolynomial p1; int32_t N; __CPROVER_assume(N >= 1); *(int32_t *)&p1.N = N; m_N = N; m_p1 = &p1; m_p2 = &p2;
    FRESET(); torusPolynomialMultFFT(&res, &p1, &p2);
    __CPROVER_assert(bad == 0 && s_i1 && s_i2 && s_mul && s_fft > s_mul && f_out == (const void *)&res && acc_kind == 0, "MultFFT: result = fft(ifft(poly1) * ifft(poly2)), written straight into the result");
    __CPROVER_assert(n_newl == 1 && n_dell == 1 && n_newt == 0 && live == 0, "MultFFT: the three Lagrange temporaries (degree of poly1) are released");
    FRESET(); torusPolynomialAddMulRFFT(&res, &p1, &p2);
    __CPROVER_assert(bad == 0 && s_fft > s_mul && s_mul > 0 && f_out == (const void *)g_tmpr && acc_kind == 1 && acc_res == (const void *)&res && acc_src == (const void *)g_tmpr && s_acc > s_fft,
                     "AddMulRFFT: the product goes to a temporary, which is then ADDED to the result");
    __CPROVER_assert(n_newl == 1 && n_dell == 1 && n_newt == 1 && n_delt == 1 && live == 0, "AddMulRFFT: temporaries released");
    FRESET(); torusPolynomialSubMulRFFT(&res, &p1, &p2);
    __CPROVER_assert(bad == 0 && s_fft > s_mul && s_mul > 0 && f_out == (const void *)g_tmpr && acc_kind == 2 && acc_res == (const void *)&res && acc_src == (const void *)g_tmpr && s_acc > s_fft,
                     "SubMulRFFT: the product goes to a temporary, which is then SUBTRACTED from the result");
    __CPROVER_assert(n_newl == 1 && n_dell == 1 && n_newt == 1 && n_delt == 1 && live == 0, "SubMulRFFT: temporaries released");
    VERIF_REACH();
}
#endif

#ifdef H_CONVERT
static int n_conv; static const TGswSample *c_src; static TGswSampleFFT *c_dst; static const TLweParams *c_tp;
void tLweToFFTConvert(TLweSampleFFT *result, const TLweSample *source, const TLweParams *params) { if (result != c_dst->all_samples + n_conv || source != c_src->all_sample + n_conv || params != c_tp) bad++; n_conv++; }
static int n_clear; static TGswSample *cl_dst;
void tLweClear(TLweSample *result, const TLweParams *params) { if (result != &cl_dst->all_sample[n_clear] || params != c_tp) bad++; n_clear++; }
static int n_x; static TGswSample *x_dst; static const TGswSample *x_src; static int32_t x_ai;
void tLweMulByXaiMinusOne(TLweSample *result, int32_t ai, const TLweSample *bk, const TLweParams *params) { if (result != &x_dst->all_sample[n_x] || bk != &x_src->all_sample[n_x] || ai != x_ai || params != c_tp) bad++; n_x++; }
static int n_back; static TGswSample *b_dst; static const TGswSampleFFT *b_src;
void tLweFromFFTConvert(TLweSample *result, const TLweSampleFFT *source, const TLweParams *params) { if (result != b_dst->all_sample + n_back || source != b_src->all_samples + n_back || params != c_tp) bad++; n_back++; }
static int n_fclear; static TGswSampleFFT *fc_dst;
void tLweFFTClear(TLweSampleFFT *result, const TLweParams *params) { if (result != fc_dst->all_samples + n_fclear || params != c_tp) bad++; n_fclear++; }
/* FFT-domain gadget: row (bloc i, digit j), polynomial i receives the constant h[j]; which (i,j) pairs were hit is kept as a bit set */
static int n_addc; static uint32_t hit; static TLweSampleFFT (*fh_rows)[VERIF_L]; static LagrangeHalfCPolynomial fh_polys[KPL][VERIF_K + 1]; static const Torus32 *fh_h;
void LagrangeHalfCPolynomialAddTorusConstant(LagrangeHalfCPolynomial *result, const Torus32 cst) {
    long idx = result - &fh_polys[0][0]; int r = (int)(idx / (VERIF_K + 1)), q = (int)(idx % (VERIF_K + 1));
    if (idx < 0 || idx >= (long)KPL * (VERIF_K + 1) || q != r / VERIF_L || cst != fh_h[r % VERIF_L] || ((hit >> r) & 1u)) bad++;     /* block diagonal, weight of the row's digit, once per row */
    else hit |= 1u << r;
    n_addc++; }
#include "extracted.inc"
void h_tgsw_rowwise(void) {
    TLweParams tp; TGswParams gp; *(const TLweParams **)&gp.tlwe_params = &tp; *(int32_t *)&gp.kpl = KPL;
    TGswSample src, dst; TLweSample r1[KPL], r2[KPL]; src.all_sample = r1; dst.all_sample = r2; TGswSampleFFT fdst; TLweSampleFFT fr[KPL]; fdst.all_samples = fr;
    c_src = &src; c_dst = &fdst; c_tp = &tp; cl_dst = &dst; x_dst = &dst; x_src = &src; n_conv = n_clear = n_x = bad = 0; int32_t ai; x_ai = ai;
    tGswToFFTConvert(&fdst, &src, &gp);
    __CPROVER_assert(n_conv == KPL && bad == 0, "each of the (k+1)l rows is transformed exactly once into its own slot");
    tGswClear(&dst, &gp);
    __CPROVER_assert(n_clear == KPL && bad == 0, "every row cleared once");
    tGswMulByXaiMinusOne(&dst, ai, &src, &gp);
    __CPROVER_assert(n_x == KPL && bad == 0, "every row multiplied by X^ai - 1 once, row by row");
    b_dst = &dst; b_src = &fdst; n_back = 0;
    tGswFromFFTConvert(&dst, &fdst, &gp);
    __CPROVER_assert(n_back == KPL && bad == 0, "each of the (k+1)l rows is transformed back exactly once into its own slot");
    fc_dst = &fdst; n_fclear = 0;
    tGswFFTClear(&fdst, &gp);
    __CPROVER_assert(n_fclear == KPL && bad == 0, "every FFT-domain row cleared once");
    /* FFT-domain gadget rows */
    static TLweSampleFFT frows[KPL]; static TLweSampleFFT *fblocs[VERIF_K + 1]; Torus32 hh[VERIF_L]; gp.h = hh; *(int32_t *)&gp.l = VERIF_L; *(int32_t *)&tp.k = VERIF_K; fh_h = hh;
    for (int r = 0; r < KPL; r++) { frows[r].a = fh_polys[r]; frows[r].b = fh_polys[r] + VERIF_K; }
    for (int b = 0; b <= VERIF_K; b++) fblocs[b] = frows + b * VERIF_L;
    TGswSampleFFT fg; fg.all_samples = frows; fg.sample = fblocs; n_addc = 0; hit = 0;
    tGswFFTAddH(&fg, &gp);
    __CPROVER_assert(n_addc == KPL && bad == 0 && hit == (1u << KPL) - 1u, "FFT-domain gadget: every row (bloc i, digit j) gets the constant h[j] on polynomial i, exactly once, nothing else");
    VERIF_REACH();
}
#endif

#ifdef H_TRUNC
/* exact-up-to-truncation identity per coefficient, from C12's recomposition bound: for a noiseless row structure m*h_p,
 * sum_p digit_p * (m*h_p) == m*x - m*eps with 0 <= eps < 2^(32-l*Bgbit)  (m an arbitrary 32-bit integer coefficient) */
#define DEC_HALFBG (1 << (VERIF_BGBIT - 1))
#define DEC_MASK ((1u << VERIF_BGBIT) - 1u)
#define DEC_W(q) (1u << (32 - ((q) + 1) * VERIF_BGBIT))
void h_lemma_truncation(void) {
    uint32_t in_x; const uint32_t in_m = (uint32_t)(VERIF_MCONST); uint32_t off = 0;
    for (int q = 0; q < VERIF_L; q++) off += DEC_W(q);
    off *= (uint32_t)DEC_HALFBG;
    uint32_t v = in_x + off, acc = 0, rec = 0;
    for (int q = 0; q < VERIF_L; q++) { int32_t d = (int32_t)((v >> (32 - (q + 1) * VERIF_BGBIT)) & DEC_MASK) - DEC_HALFBG; acc += (uint32_t)d * (in_m * DEC_W(q)); rec += (uint32_t)d * DEC_W(q); }
    uint32_t eps = in_x - rec;
    __CPROVER_assert(acc == in_m * in_x - in_m * eps, "sum_p digit_p*(m*h_p) == m*x - m*eps");
#if VERIF_L * VERIF_BGBIT == 32
    __CPROVER_assert(eps == 0, "no truncation when l*Bgbit == 32");
#else
    __CPROVER_assert(eps < (1u << (32 - VERIF_L * VERIF_BGBIT)), "truncation error below 2^(32-l*Bgbit)");
#endif
    VERIF_REACH();
}
#endif
