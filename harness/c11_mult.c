/* C11 bounded stand-ins (labelled bounded, never counted as proved): schoolbook and Karatsuba products.
 * A polynomial product coefficient is an unbounded sum of products; CBMC has no closed form to carry through a loop
 * invariant, so the functional statement is checked for fixed small degrees with fully symbolic coefficients. */
#include "verif_prelude.h"
#include "extracted.inc"
#ifndef VERIF_N
#define VERIF_N 4
#endif
#define NN VERIF_N

/* independent specification: the ring Z[X]/(X^N+1): full product, then X^(N+k) = -X^k */
static void spec_negacyclic(uint32_t *out, const int32_t *a, const Torus32 *b) {
    uint32_t full[2 * NN];
    for (int k = 0; k < 2 * NN; k++) full[k] = 0;
    for (int i = 0; i < NN; i++) for (int j = 0; j < NN; j++) full[i + j] += (uint32_t)(a[i] * b[j]);
    for (int k = 0; k < NN; k++) out[k] = full[k] - full[k + NN];
}

#ifdef H_NAIVE
void h_b_naive(void) {
    int32_t a[NN]; Torus32 b[NN]; Torus32 r[NN]; uint32_t s[NN];
    torusPolynomialMultNaive_aux(r, a, b, NN);
    spec_negacyclic(s, a, b);
    for (int k = 0; k < NN; k++) __CPROVER_assert((uint32_t)r[k] == s[k], "schoolbook product equals the product in Z[X]/(X^N+1), coefficients mod 2^32 (extreme values included)");
    VERIF_REACH();
}
#endif

#ifdef H_KARA
/* Karatsuba wrappers against the specification on symbolic basis pairs (X^i, c*X^j): bilinearity of the routine
 * (only +, - and products of linear forms) extends this to all inputs; that step is not machine-checked. */
void h_b_karatsuba(void) {
    IntPolynomial p1; TorusPolynomial p2, res;
    int32_t a[NN]; Torus32 b[NN]; Torus32 r[NN]; Torus32 r0[NN]; uint32_t s[NN];
    *(int32_t *)&p1.N = NN; *(int32_t *)&p2.N = NN; *(int32_t *)&res.N = NN; p1.coefs = a; p2.coefsT = b; res.coefsT = r;
    int32_t in_i, in_j; Torus32 in_c; __CPROVER_assume(in_i >= 0 && in_i < NN && in_j >= 0 && in_j < NN);
    for (int k = 0; k < NN; k++) { a[k] = (k == in_i); b[k] = (k == in_j) ? in_c : 0; r0[k] = r[k]; }
    spec_negacyclic(s, a, b);
#if KMODE == 0
    torusPolynomialMultKaratsuba(&res, &p1, &p2);
    for (int k = 0; k < NN; k++) __CPROVER_assert((uint32_t)r[k] == s[k], "Karatsuba product equals the ring product on basis pairs");
#elif KMODE == 1
    torusPolynomialAddMulRKaratsuba(&res, &p1, &p2);
    for (int k = 0; k < NN; k++) __CPROVER_assert((uint32_t)r[k] == (uint32_t)r0[k] + s[k], "Karatsuba multiply-accumulate on basis pairs");
#else
    torusPolynomialSubMulRKaratsuba(&res, &p1, &p2);
    for (int k = 0; k < NN; k++) __CPROVER_assert((uint32_t)r[k] == (uint32_t)r0[k] - s[k], "Karatsuba multiply-subtract on basis pairs");
#endif
    VERIF_REACH();
}
#endif
