/* R9: the libstdc++ samplers, as declared-only draws recorded in ghost state (ASSUMED contract: a draw returns an
 * arbitrary value of its type; normal_distribution(m,s) is N(m,s), uniform_int_distribution(a,b) is uniform on [a,b]).
 * What the library code adds -- which mean/sigma/range reach the sampler, how many draws, what is done with them --
 * is what the checks decide. */
#ifndef VERIF_SAMPLERS_H
#define VERIF_SAMPLERS_H
typedef struct { double mean, sigma; } verif_normal_t;
typedef struct { int32_t lo, hi; } verif_uniform_int_t;
static int g_n_normal, g_n_uniform_t32, g_n_uniform_int; static int g_rng_touched;
static double g_last_mean, g_last_sigma, g_last_normal; static int32_t g_ui_lo, g_ui_hi; static int g_bad_sampler;
static inline verif_normal_t verif_normal_init(double m, double s) { verif_normal_t d; d.mean = m; d.sigma = s; return d; }
static inline double verif_normal_draw(verif_normal_t *d) {
    double x; __CPROVER_assume(x > -1e9 && x < 1e9);   /* finite draw */
    g_n_normal++; g_rng_touched = 1; g_last_mean = d->mean; g_last_sigma = d->sigma; g_last_normal = x; return x; }
static inline Torus32 verif_draw_uniform_torus32(void) { Torus32 x; g_n_uniform_t32++; g_rng_touched = 1; return x; }
static inline verif_uniform_int_t verif_uniform_int_init(int32_t a, int32_t b) { verif_uniform_int_t d; d.lo = a; d.hi = b; return d; }
static inline int32_t verif_uniform_int_draw(verif_uniform_int_t *d) {
    int32_t x; __CPROVER_assume(x >= d->lo && x <= d->hi); g_n_uniform_int++; g_rng_touched = 1; g_ui_lo = d->lo; g_ui_hi = d->hi; return x; }
#define SAMPLERS_RESET() (g_n_normal = g_n_uniform_t32 = g_n_uniform_int = g_rng_touched = g_bad_sampler = 0)
#endif
