/* C14/C15/C16: TLWE linear operations and sample/key extraction.  k = VERIF_K enumerated, N symbolic. */
#include "verif_prelude.h"
#include "c_tlwe.h"
int32_t g_k, g_N, g_i, g_j;
/* polynomial-level callees: contracts only (enforced against their bodies in the C11/C14 polynomial groups) */
void torusPolynomialClear(TorusPolynomial *result) CONTRACT_torusPolynomialClear;
void torusPolynomialCopy(TorusPolynomial *result, const TorusPolynomial *sample) CONTRACT_torusPolynomialCopy;
void torusPolynomialAddTo(TorusPolynomial *result, const TorusPolynomial *poly2) CONTRACT_torusPolynomialAddTo;
void torusPolynomialSubTo(TorusPolynomial *result, const TorusPolynomial *poly2) CONTRACT_torusPolynomialSubTo;
void torusPolynomialAddMulZTo(TorusPolynomial *result, const int32_t p, const TorusPolynomial *poly2) CONTRACT_torusPolynomialAddMulZTo;
void torusPolynomialSubMulZTo(TorusPolynomial *result, int32_t p, const TorusPolynomial *poly2) CONTRACT_torusPolynomialSubMulZTo;
void torusPolynomialMulByXaiMinusOne(TorusPolynomial *result, int32_t a, const TorusPolynomial *source) CONTRACT_torusPolynomialMulByXaiMinusOne;
#ifdef EXTRACT_CALLEE_CONTRACT
void tLweExtractLweSampleIndex(LweSample *result, const TLweSample *x, const int32_t index, const LweParams *params, const TLweParams *rparams) CONTRACT_tLweExtractLweSampleIndex;
#endif
#include "extracted.inc"
#ifdef VERIF_ARB_FIXED_N
/* bounded arbiter of the extraction groups: a concrete ring degree (symbolic-size objects written at symbolic indices in unwound loops exhaust memory) */
static void havoc_ghosts(void) { int32_t a, c, d; g_k = a; g_N = VERIF_BOUND; g_i = c; g_j = d; }
#else
static void havoc_ghosts(void) { int32_t a, b, c, d; g_k = a; g_N = b; g_i = c; g_j = d; }
#endif
#define H1(fn, ...) void h_##fn(void) { havoc_ghosts(); __VA_ARGS__; VERIF_REACH(); }
H1(tLweClear, TLweSample *r; const TLweParams *p; tLweClear(r, p))
H1(tLweCopy, TLweSample *r; const TLweSample *s; const TLweParams *p; tLweCopy(r, s, p))
H1(tLweNoiselessTrivial, TLweSample *r; const TorusPolynomial *mu; const TLweParams *p; tLweNoiselessTrivial(r, mu, p))
H1(tLweNoiselessTrivialT, TLweSample *r; Torus32 mu; const TLweParams *p; tLweNoiselessTrivialT(r, mu, p))
H1(tLweAddTo, TLweSample *r; const TLweSample *s; const TLweParams *p; tLweAddTo(r, s, p))
H1(tLweSubTo, TLweSample *r; const TLweSample *s; const TLweParams *p; tLweSubTo(r, s, p))
H1(tLweAddMulTo, TLweSample *r; int32_t pp; const TLweSample *s; const TLweParams *p; tLweAddMulTo(r, pp, s, p))
H1(tLweSubMulTo, TLweSample *r; int32_t pp; const TLweSample *s; const TLweParams *p; tLweSubMulTo(r, pp, s, p))
H1(tLweMulByXaiMinusOne, TLweSample *r; int32_t ai; const TLweSample *s; const TLweParams *p; tLweMulByXaiMinusOne(r, ai, s, p))
H1(tLweAddTTo, TLweSample *r; int32_t pos; Torus32 x; const TLweParams *p; tLweAddTTo(r, pos, x, p))
H1(tLweAddRTTo, TLweSample *r; int32_t pos; const IntPolynomial *ip; Torus32 x; const TLweParams *p; tLweAddRTTo(r, pos, ip, x, p))
H1(tLweExtractLweSampleIndex, LweSample *r; const TLweSample *x; int32_t index; const LweParams *p; const TLweParams *rp; tLweExtractLweSampleIndex(r, x, index, p, rp))
H1(tLweExtractLweSample, LweSample *r; const TLweSample *x; const LweParams *p; const TLweParams *rp; tLweExtractLweSample(r, x, p, rp))
H1(tLweExtractKey, LweKey *r; const TLweKey *k; tLweExtractKey(r, k))
