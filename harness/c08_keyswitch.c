/* C08: key switching.
 *  - h_lemma_digits: loop-free (width-bounded) arithmetic lemma over ALL 2^32 mask values and ALL valid (t,basebit)
 *    (symbolic): the property's round-to-nearest digits recompose to the rounded value, the truncation error is centred
 *    and at most 2^-(t*basebit+1), and the row messages h*s_i/base^(j+1) of the used rows sum to s_i times the rounded value.
 *  - h_b_translate: the REAL lweKeySwitchTranslate_fromArray on a table built by the REAL LweKeySwitchKey constructor,
 *    lweSubTo replaced by a monitor; bounded in n (labelled bounded), all 2^32 values of every a_i symbolic,
 *    (t,basebit) an enumerated instance: the rows subtracted are exactly the rows the property's digits select.
 *  - h_lweKeySwitch: wiring of lweKeySwitch (unbounded: no loop; callees are monitors). */
#include "verif_prelude.h"

/* ---------- specification digits, written from the property statement (NOT the code's shifts):
 * abar = nearest multiple of 2^k to a (k = 32 - t*basebit, ties up), digits = base-2^basebit digits of abar / 2^k */
static inline uint32_t spec_rounded_top(uint32_t a, int32_t t, int32_t basebit) {
    int32_t k = 32 - t * basebit;                       /* dropped bits, 1 <= k <= 31 */
    uint64_t r = ((uint64_t)a + ((uint64_t)1 << (k - 1))) >> k;   /* round(a / 2^k), ties up */
    return (uint32_t)(r & ((((uint64_t)1) << (t * basebit)) - 1)); /* modulo 2^(t*basebit): wrap at the top of the torus */
}
static inline uint32_t spec_digit(uint32_t a, int32_t t, int32_t basebit, int32_t j) {
    return (spec_rounded_top(a, t, basebit) >> ((t - 1 - j) * basebit)) & ((1u << basebit) - 1u);
}

#ifdef H_LEMMA
void h_lemma_digits(void) {
    int32_t t, basebit; uint32_t in_a, in_s;
    __CPROVER_assume(t >= 1 && basebit >= 1 && t * basebit <= 31 && t <= 31 && basebit <= 31);
    int32_t k = 32 - t * basebit;
    uint32_t top = spec_rounded_top(in_a, t, basebit);
    uint32_t abar = top << k;                                /* the rounded mask value on the torus */
    uint32_t rec = 0;
    for (int32_t j = 0; j < t; j++) {
        uint32_t d = spec_digit(in_a, t, basebit, j);
        __CPROVER_assert(d < (1u << basebit), "digit < base");
        uint32_t w = 1u << (32 - (j + 1) * basebit);        /* weight of row (i,j,.) */
        rec += d * w;
    }
    __CPROVER_assert(rec == abar, "digits recompose to the rounded value (carries across digits and wrap at the top included)");
    int32_t err = (int32_t)(in_a - abar);
    int64_t half = (int64_t)1 << (k - 1);
    __CPROVER_assert(err >= -half && err < half, "truncation error at most 2^-(t*basebit+1): round to nearest");
    __CPROVER_assert(err == (int32_t)((in_a + (uint32_t)half) & ((1u << k) - 1u)) - (int32_t)half, "error is the centred function of the dropped bits (zero on average)");
    VERIF_REACH();
}
#endif

#ifdef H_LEMMA_ROWMSG
/* per layout instance: the messages (s_i*d_j)*2^(32-(j+1)basebit) that lweCreateKeySwitchKey puts in the rows used sum to
 * s_i times the rounded mask value, for an arbitrary 32-bit key entry s_i */
void h_lemma_rowmsg(void) {
    const int32_t t = VERIF_T, basebit = VERIF_BASEBIT; uint32_t in_a, in_s;
    uint32_t abar = spec_rounded_top(in_a, t, basebit) << (32 - t * basebit);
    uint32_t msg = 0;
    for (int32_t j = 0; j < t; j++) msg += (in_s * spec_digit(in_a, t, basebit, j)) * (1u << (32 - (j + 1) * basebit));
    __CPROVER_assert(msg == in_s * abar, "messages of the rows used sum to s_i * rounded value");
    VERIF_REACH();
}
#endif

#ifdef H_TRANSLATE
#ifndef VERIF_BN
#define VERIF_BN 2
#endif
#define MAXCALLS (VERIF_BN * VERIF_T)
static const LweSample *log_sample[MAXCALLS + 1];
static int log_n, log_badargs;
static LweSample *exp_result; static const LweParams *exp_params;
/* monitor shim: records what key switching subtracts */
void lweSubTo(LweSample *result, const LweSample *sample, const LweParams *params) {
    if (result != exp_result || params != exp_params) log_badargs++;
    if (log_n <= MAXCALLS) log_sample[log_n] = sample;
    log_n++;
}
LweSample *new_LweSample_array(int32_t nbelts, const LweParams *params) { return (LweSample *)verif_alloc((size_t)nbelts * sizeof(LweSample)); }
void delete_LweSample_array(int32_t nbelts, LweSample *obj) { free(obj); }
#include "extracted.inc"
void h_b_translate(void) {
    const int32_t n = VERIF_BN;   /* concrete per instance */
    const int32_t t = VERIF_T, basebit = VERIF_BASEBIT, base = 1 << VERIF_BASEBIT;
    LweParams op; LweSample res; LweKeySwitchKey ksk;
    init_LweKeySwitchKey(&ksk, n, t, basebit, &op);                 /* real init + real constructor: the 3-level index */
    VERIF_SIZE_GUARD(ksk.ks0_raw, (size_t)(n * t * base) * sizeof(LweSample));
    VERIF_SIZE_GUARD(ksk.ks1_raw, (size_t)(n * t) * sizeof(LweSample *));
    VERIF_SIZE_GUARD(ksk.ks, (size_t)n * sizeof(LweSample **));
    Torus32 in_ai[VERIF_BN];
    exp_result = &res; exp_params = &op; log_n = 0; log_badargs = 0;
    lweKeySwitchTranslate_fromArray(&res, (const LweSample ***)ksk.ks, &op, in_ai, n, t, basebit);
    /* expected call sequence from the property's digits */
    int e = 0;
    for (int32_t i = 0; i < n; i++)
        for (int32_t j = 0; j < t; j++) {
            uint32_t d = spec_digit((uint32_t)in_ai[i], t, basebit, j);
            if (d != 0) {
                __CPROVER_assert(e < log_n && log_sample[e] == &ksk.ks0_raw[(i * t + j) * base + (int32_t)d],
                                 "the row subtracted for (i,j) is row (i,j,digit) of the contiguous key array, digit = the property's round-to-nearest digit");
                e++;
            }
        }
    __CPROVER_assert(e == log_n, "no other row is subtracted; digit 0 is skipped");
    __CPROVER_assert(log_badargs == 0, "every subtraction is applied to the result sample with the output parameters");
    destroy_LweKeySwitchKey(&ksk);
    VERIF_REACH();
}
#endif

#ifdef H_KEYSWITCH
static int c_triv, c_tr, order_ok;
static LweSample *m_res; static Torus32 m_mu; static const LweParams *m_par;
static const LweSample ***m_ks; static const Torus32 *m_ai; static int32_t m_n, m_t, m_bb; static LweSample *m_res2; static const LweParams *m_par2;
void lweNoiselessTrivial(LweSample *result, Torus32 mu, const LweParams *params) { m_res = result; m_mu = mu; m_par = params; order_ok = (c_tr == 0); c_triv++; }
void lweKeySwitchTranslate_fromArray(LweSample *result, const LweSample ***ks, const LweParams *params, const Torus32 *ai, const int32_t n, const int32_t t, const int32_t basebit)
{ m_res2 = result; m_ks = ks; m_par2 = params; m_ai = ai; m_n = n; m_t = t; m_bb = basebit; c_tr++; }
#include "extracted.inc"
void h_lweKeySwitch(void) {
    LweKeySwitchKey ksk; LweSample res, in; LweParams op;
    ksk.out_params = &op;
    Torus32 b0 = in.b; Torus32 *a0 = in.a;
    c_triv = c_tr = 0; order_ok = 0;
    lweKeySwitch(&res, &ksk, &in);
    __CPROVER_assert(c_triv == 1 && c_tr == 1 && order_ok, "result is first set to a noiseless trivial sample, then translated, once each");
    __CPROVER_assert(m_res == &res && m_mu == b0 && m_par == &op, "the result starts as the noiseless trivial sample of the input's b under the output parameters");
    __CPROVER_assert(m_res2 == &res && m_par2 == &op && m_ks == (const LweSample ***)ksk.ks && m_ai == a0 && m_n == ksk.n && m_t == ksk.t && m_bb == ksk.basebit,
                     "the translation uses the key's own table, n, t, basebit and the input mask");
    __CPROVER_assert(in.b == b0 && in.a == a0, "input sample untouched");
    VERIF_REACH();
}
#endif

#ifdef H_TRANSLATE_U
/* Unbounded in n (loop contracts on both loops): lweKeySwitchTranslate_fromArray on inputs whose n mask coefficients all equal one
 * symbolic value A (all 2^32 values) and whose table rows ks[i] all point to one well-formed (t x base) row block
 * (__CPROVER_array_set: a quantifier-free way to give EVERY index i < n a valid row).  Decides for every n: all table accesses are in
 * bounds (i < n, j < t, digit < base), every subtraction uses the row of the property's round-to-nearest digit, exactly one
 * subtraction per non-zero digit, none for zero digits, always on the result sample.  That the body of iteration i depends only on
 * a_i and ks[i] (so that equal coordinates lose nothing) is a syntactic fact about the loop, not machine-checked. */
#define T_ VERIF_T
#define BB_ VERIF_BASEBIT
#define BASE_ (1 << VERIF_BASEBIT)
#define K_ (32 - T_ * BB_)
#define DIG(A, j) ((uint32_t)(((((uint64_t)(uint32_t)(A) + ((uint64_t)1 << (K_ - 1))) >> K_) & ((((uint64_t)1) << (T_ * BB_)) - 1)) >> ((T_ - 1 - (j)) * BB_)) & (uint32_t)(BASE_ - 1))
#include "tnz.inc"      /* generated per t: TNZ_PREFIX(A, j) = #{ j' < j : DIG(A, j') != 0 } */
#include "c_ks.h"
static LweSample *rowp[T_];   /* t separately allocated blocks of base samples */
int32_t u_bad, u_cnt; Torus32 u_A; static LweSample *u_res; static const LweParams *u_par;
/* monitor, loop-free (TFOR is generated per t): which row block does `sample` point into, and is it the row of the property's digit? */
#define U_ROWCHECK(j) if (__CPROVER_same_object(sample, rowp[j])) { long d = sample - rowp[j]; found = 1; if (d <= 0 || d >= BASE_ || (uint32_t)d != DIG(u_A, j)) u_bad++; }
void lweSubTo(LweSample *result, const LweSample *sample, const LweParams *params) {
    int found = 0;
    TFOR(U_ROWCHECK)
    if (!found || result != u_res || params != u_par) u_bad++;
    u_cnt++;
}
#include "extracted.inc"
void h_translate_unbounded(void) {
    int32_t n; __CPROVER_assume(n >= 1 && n <= VERIF_NMAX);
#define U_ALLOC(j) rowp[j] = verif_alloc((size_t)BASE_ * sizeof(LweSample));
    TFOR(U_ALLOC)
    const LweSample ***ks = verif_alloc((size_t)n * sizeof(const LweSample **));
    __CPROVER_array_set(ks, (const LweSample **)rowp);
    Torus32 *ai = verif_alloc((size_t)n * sizeof(Torus32));
    Torus32 in_A; u_A = in_A;
    __CPROVER_array_set(ai, in_A);
    LweSample res; LweParams op; u_res = &res; u_par = &op; u_bad = 0; u_cnt = 0;
    lweKeySwitchTranslate_fromArray(&res, ks, &op, ai, n, T_, BB_);
    __CPROVER_assert(u_bad == 0, "every subtraction uses row (i, j, digit_j(a_i)) with the property's round-to-nearest digit, on the result sample");
    __CPROVER_assert((int64_t)u_cnt == (int64_t)n * TNZ_PREFIX(in_A, T_), "exactly one subtraction per non-zero digit, none for zero digits, for every i < n");
#define U_FREE(j) free(rowp[j]);
    TFOR(U_FREE)
    free(ks); free(ai);
    VERIF_REACH();
}
#endif

#ifdef H_TRANSLATE_W
/* Unbounded in n, ARBITRARY coordinates: one index g_i is watched.  Every table row ks[i], i != g_i, points to one well-formed block set A
 * (__CPROVER_array_set), ks[g_i] to another one, B; the mask is a fully symbolic array.  Decides for every n and every g_i < n: in
 * iteration g_i exactly the rows (g_i, j, digit_j(a[g_i])) with non-zero round-to-nearest digit are subtracted, each once, from B and on the
 * result sample; no other iteration touches B; every access of the other iterations stays inside A, at a non-zero digit index.
 * This removes both restrictions of H_TRANSLATE_U (equal coordinates, "iteration i reads only a_i and ks[i]" taken on syntactic grounds). */
#define T_ VERIF_T
#define BB_ VERIF_BASEBIT
#define BASE_ (1 << VERIF_BASEBIT)
#define K_ (32 - T_ * BB_)
#define DIG(A, j) ((uint32_t)(((((uint64_t)(uint32_t)(A) + ((uint64_t)1 << (K_ - 1))) >> K_) & ((((uint64_t)1) << (T_ * BB_)) - 1)) >> ((T_ - 1 - (j)) * BB_)) & (uint32_t)(BASE_ - 1))
#include "tnz.inc"
#define KS_WATCHED
#include "c_ks.h"
static LweSample *rowA[T_], *rowB[T_];
int32_t u_bad, u_cnt, u_cntB, g_i; Torus32 u_A; static LweSample *u_res; static const LweParams *u_par;
#define W_ROWB(j) if (__CPROVER_same_object(sample, rowB[j])) { long d = sample - rowB[j]; found = 1; u_cntB++; if (d <= 0 || d >= BASE_ || (uint32_t)d != DIG(u_A, j)) u_bad++; }
#define W_ROWA(j) if (__CPROVER_same_object(sample, rowA[j])) { long d = sample - rowA[j]; found = 1; if (d <= 0 || d >= BASE_) u_bad++; }
void lweSubTo(LweSample *result, const LweSample *sample, const LweParams *params) {
    int found = 0;
    TFOR(W_ROWB)
    TFOR(W_ROWA)
    if (!found || result != u_res || params != u_par) u_bad++;
    u_cnt++;
}
#include "extracted.inc"
void h_translate_watched(void) {
    int32_t n; __CPROVER_assume(n >= 1 && n <= VERIF_NMAX);
#define W_ALLOC(j) rowA[j] = verif_alloc((size_t)BASE_ * sizeof(LweSample)); rowB[j] = verif_alloc((size_t)BASE_ * sizeof(LweSample));
    TFOR(W_ALLOC)
    const LweSample ***ks = verif_alloc((size_t)n * sizeof(const LweSample **));
    __CPROVER_array_set(ks, (const LweSample **)rowA);
    int32_t gi; __CPROVER_assume(gi >= 0 && gi < n); g_i = gi; ks[gi] = (const LweSample **)rowB;
    Torus32 *ai = verif_alloc((size_t)n * sizeof(Torus32));          /* arbitrary mask */
    u_A = ai[gi];
    LweSample res; LweParams op; u_res = &res; u_par = &op; u_bad = 0; u_cnt = 0; u_cntB = 0;
    lweKeySwitchTranslate_fromArray(&res, ks, &op, ai, n, T_, BB_);
    __CPROVER_assert(u_bad == 0, "iteration g_i subtracts rows (g_i, j, digit_j(a[g_i])) with the property's round-to-nearest digit; every other access stays inside its own row block at a non-zero digit; always on the result sample");
    __CPROVER_assert(u_cntB == TNZ_PREFIX(u_A, T_), "the rows of index g_i are used exactly once per non-zero digit of a[g_i], and by no other iteration");
    __CPROVER_assert(ai[gi] == u_A, "mask untouched");
#define W_FREE(j) free(rowA[j]); free(rowB[j]);
    TFOR(W_FREE)
    free(ks); free(ai);
    VERIF_REACH();
}
#endif

#ifdef H_KSCTOR_U
/* LweKeySwitchKey constructor, UNBOUNDED in n (loop contracts on both loops), (t, basebit) enumerated: for every (i, j, h) -- watched, symbolic --
 * ks[i][j] + h is element ((i*t + j)*base + h) of the contiguous sample array handed to the constructor: the three-level table is exactly the
 * row-major view of that array (so every translate access proved in bounds of "its row block" is in bounds of the real array). */
#define T_ VERIF_T
#define BB_ VERIF_BASEBIT
#define BASE_ (1 << VERIF_BASEBIT)
int32_t g_p1, g_i;
#include "c_ksctor.h"
#include "extracted.inc"
void h_ksctor_unbounded(void) {
#ifdef VERIF_BOUND
    int32_t n; __CPROVER_assume(n >= 1 && n <= VERIF_BOUND);       /* bounded arbiter */
#else
    int32_t n; __CPROVER_assume(n >= 1 && n <= 1000000);
#endif
    LweSample *raw = verif_alloc((size_t)(n * T_ * BASE_) * sizeof(LweSample));
    VERIF_SIZE_GUARD(raw, (size_t)(n * T_ * BASE_) * sizeof(LweSample));
    int32_t gi, gj, gh; __CPROVER_assume(gi >= 0 && gi < n && gj >= 0 && gj < T_ && gh >= 0 && gh < BASE_); g_i = gi; g_p1 = gi * T_ + gj;
    LweParams op; LweKeySwitchKey ks;
    LweKeySwitchKey__ctor(&ks, n, T_, BB_, &op, raw);
    __CPROVER_assert(ks.n == n && ks.t == T_ && ks.basebit == BB_ && ks.base == BASE_ && ks.out_params == &op && ks.ks0_raw == raw, "shape and parameters stored");
    VERIF_SIZE_GUARD(ks.ks1_raw, (size_t)n * T_ * sizeof(LweSample *)); VERIF_SIZE_GUARD(ks.ks, (size_t)n * sizeof(LweSample **));
    /* stated level by level, as (object, byte offset): CBMC cannot dereference a pointer it loaded from memory havocked by a loop contract, so
     * ks[i][j][h] is not written as a double dereference here; the two facts below say the same thing for every (i, j, h) */
    __CPROVER_assert(__CPROVER_same_object(ks.ks1_raw[g_p1], raw) && __CPROVER_POINTER_OFFSET(ks.ks1_raw[g_p1]) == (__CPROVER_size_t)(BASE_ * g_p1) * sizeof(LweSample),
                     "second level: entry p = i*t + j points to element p*base of the contiguous sample array, for every p < n*t (so ks[i][j][h] is element (i*t + j)*base + h)");
    __CPROVER_assert(__CPROVER_same_object(ks.ks[gi], ks.ks1_raw) && __CPROVER_POINTER_OFFSET(ks.ks[gi]) == (__CPROVER_size_t)(T_ * gi) * sizeof(LweSample *),
                     "first level: entry i points to entry i*t of the second level, for every i < n");
    __CPROVER_assert((int64_t)(BASE_ * g_p1) + gh < (int64_t)n * T_ * BASE_, "every (i, j, h) lands inside the array");
    free(ks.ks1_raw); free(ks.ks); free(raw);
    VERIF_REACH();
}
#endif
