/* C12: gadget decomposition.  (l,Bgbit) enumerated, N symbolic, all 2^32 coefficient values symbolic. */
#include "verif_prelude.h"
#include "c_tgsw.h"
int32_t g_k, g_N, g_i, g_j, g_p;
#ifdef DECOMP_CALLEE_CONTRACT
void tGswTorus32PolynomialDecompH(IntPolynomial *result, const TorusPolynomial *sample, const TGswParams *params) CONTRACT_tGswTorus32PolynomialDecompH;
#endif
#include "extracted.inc"
static void havoc_ghosts(void) { int32_t a, b, c, d, e; g_k = a; g_N = b; g_i = c; g_j = d; g_p = e; }

void h_tGswTorus32PolynomialDecompH(void) {
    havoc_ghosts();
    IntPolynomial *r; const TorusPolynomial *s; const TGswParams *p;
    tGswTorus32PolynomialDecompH(r, s, p);
    VERIF_REACH();
}

/* pure arithmetic lemma from the property statement, all 2^32 values: the digit formula the contract proves for
 * every row implies balanced digits and the recomposition bound (independent cross-check of the contract's oracle) */
void h_lemma_decomp(void) {
    uint32_t in_x;
    uint32_t v = in_x + DEC_OFFSET;
    uint32_t recomp = 0;
    for (int q = 0; q < VERIF_L; q++) {
        int32_t d = DEC_DIGIT_OF(v, q);
        __CPROVER_assert(d >= -DEC_HALFBG && d < DEC_HALFBG, "digit in [-Bg/2, Bg/2)");
        recomp += (uint32_t)d * DEC_W(q);
    }
    uint32_t diff = in_x - recomp;
#if (VERIF_L * VERIF_BGBIT) == 32
    __CPROVER_assert(diff == 0, "exact recomposition when l*Bgbit == 32");
#else
    __CPROVER_assert(diff < (1u << DEC_LOWBITS), "x - sum digit*Bg^-p in [0, 2^(32-l*Bgbit))");
#endif
    VERIF_REACH();
}

void h_tGswTLweDecompH(void) {
    havoc_ghosts();
    IntPolynomial *r; const TLweSample *s; const TGswParams *p;
    tGswTLweDecompH(r, s, p);
    VERIF_REACH();
}

/* TGswParams constructor: derived fields against the closed forms of the property / header comments */
void h_TGswParams_ctor(void) {
    TGswParams obj; TLweParams tp;
    *(int32_t *)&tp.k = VERIF_K;
    TGswParams__ctor(&obj, VERIF_L, VERIF_BGBIT, &tp);
    __CPROVER_assert(obj.l == VERIF_L && obj.Bgbit == VERIF_BGBIT && obj.tlwe_params == &tp, "l, Bgbit, tlwe_params stored");
    __CPROVER_assert(obj.Bg == DEC_BG && obj.halfBg == DEC_BG / 2 && obj.maskMod == (uint32_t)DEC_BG - 1u, "Bg = 2^Bgbit, halfBg = Bg/2, maskMod = Bg-1");
    __CPROVER_assert(obj.kpl == (VERIF_K + 1) * VERIF_L, "kpl = (k+1)*l");
    __CPROVER_assert(obj.offset == DEC_OFFSET, "offset = Bg/2 * sum_p 2^(32-p*Bgbit)");
    VERIF_SIZE_GUARD(obj.h, (size_t)VERIF_L * sizeof(Torus32));
    for (int q = 0; q < VERIF_L; q++) __CPROVER_assert((uint32_t)obj.h[q] == DEC_W(q), "h[q] = 2^(32-(q+1)*Bgbit)");
    TGswParams__dtor(&obj);
    VERIF_REACH();
}
