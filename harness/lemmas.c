/* Loop-free lemmas over symbolic machine integers: complete proofs (no loops, full 32-bit domains). */
#include "verif_prelude.h"

/* L14a step linearity: the contribution of one coordinate to the phase, acc' = acc + a*s, is linear in the
 * coordinate-wise operations c1 +- p*c2 -- for arbitrary 32-bit key entries s (not only binary keys). */
void h_lemma_linearity(void) {
    uint32_t a1, a2, p, s;
    __CPROVER_assert((a1 + p * a2) * s == a1 * s + p * (a2 * s), "(a1 + p*a2)*s == a1*s + p*(a2*s)  (mod 2^32)");
    __CPROVER_assert((a1 - p * a2) * s == a1 * s - p * (a2 * s), "(a1 - p*a2)*s == a1*s - p*(a2*s)  (mod 2^32)");
    __CPROVER_assert((0u - a1) * s == 0u - a1 * s, "(-a1)*s == -(a1*s)");
    __CPROVER_assert(0u * s == 0u, "trivial sample: zero mask contributes nothing under every key");
    VERIF_REACH();
}

/* L14b extraction term: the j-th entry of the extracted mask times s[j] is exactly the j-th term, with its sign,
 * of coefficient `index` of the negacyclic product a*s:  (a*s)[index] = sum_{j<=index} a[index-j] s[j] - sum_{j>index} a[N+index-j] s[j].
 * Stated against the defining relation X^N = -1: term (m, j) with m + j == index contributes +, with m + j == index + N contributes -. */
void h_lemma_extract_term(void) {
    int32_t N, index, j; uint32_t a_m, s_j;
    __CPROVER_assume(N >= 1 && N <= VERIF_NMAX && index >= 0 && index < N && j >= 0 && j < N);
    int32_t m = (j <= index) ? index - j : N + index - j;     /* source coefficient read by the extraction */
    __CPROVER_assert(m >= 0 && m < N, "source index in range");
    __CPROVER_assert((j <= index) ? (m + j == index) : (m + j == index + N), "X^m * X^j lands on X^index directly or after exactly one wrap");
    uint32_t ext = (j <= index) ? a_m : 0u - a_m;            /* EXT_SPEC */
    uint32_t term = (m + j >= N) ? 0u - a_m * s_j : a_m * s_j; /* ring: X^(m+j) = -X^(m+j-N) */
    __CPROVER_assert(ext * s_j == term, "extracted entry times key entry equals the ring term with its sign");
    VERIF_REACH();
}

/* ---- monomial algebra over the postcondition's index/sign function (C11, C04).
 * XAI (contracts/c_poly.h) says: coefficient g of X^a * in is  s * in[m]  with (m, s) = sigma(a, g):
 *   q = g - a;  q >= 0: (q, +);  -N <= q < 0: (q+N, -);  q < -N: (q+2N, +).                              */
#include "c_poly.h"
int32_t g_k, g_N;
#ifndef LEMMA_NMAX
#define LEMMA_NMAX VERIF_NMAX
#endif
/* all quantities are bounded by 3N <= 3e8: 32-bit arithmetic is exact here */
static inline int32_t sig_idx(int32_t N, int32_t a, int32_t g) { int32_t q = g - a; return q >= 0 ? q : (q >= -N ? q + N : q + 2 * N); }
static inline int sig_neg(int32_t N, int32_t a, int32_t g) { int32_t q = g - a; return q >= 0 ? 0 : (q >= -N ? 1 : 0); }

void h_lemma_monomial(void) {
    int32_t N, a, b, g;
    __CPROVER_assume(N >= 1 && N <= LEMMA_NMAX && a >= 0 && a < 2 * N && b >= 0 && b < 2 * N && g >= 0 && g < N);
    /* sigma is well defined */
    int32_t m1 = sig_idx(N, b, g);
    __CPROVER_assert(m1 >= 0 && m1 < N, "source index in range");
    /* X^a * (X^b * in) = X^((a+b) mod 2N) * in : same source index, same sign */
    int32_t m2 = sig_idx(N, a, m1);
    int s2 = sig_neg(N, b, g) ^ sig_neg(N, a, m1);
    int32_t c = a + b; if (c >= 2 * N) c -= 2 * N;   /* (a+b) mod 2N, both < 2N */
    /* proof hint (asserted, then used): both indices are congruent to g - a - b modulo N and lie in [0,N) */
    int32_t m3 = sig_idx(N, c, g);
    int32_t d = m2 - m3;
    __CPROVER_assert(d == 0 || d == N || d == -N || d == 2 * N || d == -2 * N || d == 3 * N || d == -3 * N, "hint: indices congruent modulo N");
    __CPROVER_assume(d == 0 || d == N || d == -N || d == 2 * N || d == -2 * N || d == 3 * N || d == -3 * N);
    __CPROVER_assert(m2 == m3 && s2 == sig_neg(N, c, g), "X^a * X^b == X^(a+b mod 2N)");
    /* X^N = -1, X^0 = 1 */
    __CPROVER_assert(sig_idx(N, N, g) == g && sig_neg(N, N, g) == 1, "X^N == -1");
    __CPROVER_assert(sig_idx(N, 0, g) == g && sig_neg(N, 0, g) == 0, "X^0 == 1");
    /* the ring rule itself: X^a * X^m lands on X^g with sign (-1)^(number of wraps) */
    int32_t m = sig_idx(N, a, g);
    __CPROVER_assert((m + a == g && !sig_neg(N, a, g)) || (m + a == g + N && sig_neg(N, a, g)) || (m + a == g + 2 * N && !sig_neg(N, a, g)),
                     "sigma agrees with X^N = -1: m + a = g + w*N with sign (-1)^w");
    VERIF_REACH();
}

/* C04 index lemma: coefficient 0 of the initial accumulator X^(2N-p)*v (v itself when p == 0) is the p-th value of the
 * anticyclic extension of v: v[p] for p in [0,N), -v[p-N] for p in [N,2N) -- all 2N values of p, boundaries included.
 * With v == (mu,...,mu) this is +mu on [0,N) and -mu on [N,2N). */
void h_lemma_testvector(void) {
    int32_t N, p;
    __CPROVER_assume(N >= 1 && N <= LEMMA_NMAX && p >= 0 && p < 2 * N);
    int32_t a = (p != 0) ? 2 * N - p : 0;           /* exponent used by blindRotateAndExtract (copy when p == 0) */
    int32_t m = sig_idx(N, a, 0); int neg = sig_neg(N, a, 0);
    __CPROVER_assert(p < N ? (m == p && !neg) : (m == p - N && neg), "coefficient 0 of X^(2N-p)*v is v_ext[p]");
    /* one blind-rotation step multiplies by X^e (e = bara_i*s_i mod 2N): p decreases by e modulo 2N */
    int32_t e; __CPROVER_assume(e >= 0 && e < 2 * N);
    int32_t a2 = a + e; if (a2 >= 2 * N) a2 -= 2 * N;
    int32_t p2 = p - e; if (p2 < 0) p2 += 2 * N;
    int32_t mm = sig_idx(N, a2, 0); int nn = sig_neg(N, a2, 0);
    __CPROVER_assert(p2 < N ? (mm == p2 && !nn) : (mm == p2 - N && nn), "after rotating by X^e the extracted value is v_ext[p - e mod 2N]");
    VERIF_REACH();
}
