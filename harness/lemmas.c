/* Loop-free lemmas over symbolic machine integers: complete proofs (no loops, full 32-bit domains). */
#include "verif_prelude.h"

/* L14a step linearity: the contribution of one coordinate to the phase, acc' = acc + a*s, is linear in the
 * coordinate-wise operations c1 +- p*c2 -- for arbitrary 32-bit key entries s (not only binary keys). */
void h_lemma_linearity(void) {
    uint32_t a1, a2, p, s;
    __CPROVER_assert((a1 + p * a2) * s == a1 * s + p * (a2 * s), "(a1 + p*a2)*s == a1*s + p*(a2*s)  (mod 2^32)");
    __CPROVER_assert((a1 - p * a2) * s == a1 * s - p * (a2 * s), "(a1 - p*a2)*s == a1*s - p*(a2*s)  (mod 2^32)");
    __CPROVER_assert((0u - a1) * s == 0u - a1 * s, "(-a1)*s == -(a1*s)");
    __CPROVER_assert(0u * s == 0u, "trivial sample: zero mask contributes nothing under every key");
    VERIF_REACH();
}

/* L14b extraction term: the j-th entry of the extracted mask times s[j] is exactly the j-th term, with its sign,
 * of coefficient `index` of the negacyclic product a*s:  (a*s)[index] = sum_{j<=index} a[index-j] s[j] - sum_{j>index} a[N+index-j] s[j].
 * Stated against the defining relation X^N = -1: term (m, j) with m + j == index contributes +, with m + j == index + N contributes -. */
void h_lemma_extract_term(void) {
    int32_t N, index, j; uint32_t a_m, s_j;
    __CPROVER_assume(N >= 1 && N <= VERIF_NMAX && index >= 0 && index < N && j >= 0 && j < N);
    int32_t m = (j <= index) ? index - j : N + index - j;     /* source coefficient read by the extraction */
    __CPROVER_assert(m >= 0 && m < N, "source index in range");
    __CPROVER_assert((j <= index) ? (m + j == index) : (m + j == index + N), "X^m * X^j lands on X^index directly or after exactly one wrap");
    uint32_t ext = (j <= index) ? a_m : 0u - a_m;            /* EXT_SPEC */
    uint32_t term = (m + j >= N) ? 0u - a_m * s_j : a_m * s_j; /* ring: X^(m+j) = -X^(m+j-N) */
    __CPROVER_assert(ext * s_j == term, "extracted entry times key entry equals the ring term with its sign");
    VERIF_REACH();
}
