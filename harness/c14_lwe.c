/* C14/C15/C16: LWE linear operations, every n >= 1 symbolic and unbounded (loop contracts). */
#include "verif_prelude.h"
#include "c_lwe.h"
int32_t g_k, g_n;
#include "extracted.inc"

#define HAVOC_GHOST() do_havoc_ghost()
static void do_havoc_ghost(void) { int32_t nd; g_k = nd; }

void h_lweClear(void) { LweSample *r; const LweParams *p; HAVOC_GHOST(); lweClear(r, p); VERIF_REACH(); }
void h_lweCopy(void) { LweSample *r; const LweSample *s; const LweParams *p; HAVOC_GHOST(); lweCopy(r, s, p); VERIF_REACH(); }
void h_lweNegate(void) { LweSample *r; const LweSample *s; const LweParams *p; HAVOC_GHOST(); lweNegate(r, s, p); VERIF_REACH(); }
void h_lweNoiselessTrivial(void) { LweSample *r; Torus32 mu; const LweParams *p; HAVOC_GHOST(); lweNoiselessTrivial(r, mu, p); VERIF_REACH(); }
void h_lweAddTo(void) { LweSample *r; const LweSample *s; const LweParams *p; HAVOC_GHOST(); lweAddTo(r, s, p); VERIF_REACH(); }
void h_lweSubTo(void) { LweSample *r; const LweSample *s; const LweParams *p; HAVOC_GHOST(); lweSubTo(r, s, p); VERIF_REACH(); }
void h_lweAddMulTo(void) { LweSample *r; int32_t pp; const LweSample *s; const LweParams *p; HAVOC_GHOST(); lweAddMulTo(r, pp, s, p); VERIF_REACH(); }
void h_lwePhase(void) { const LweSample *s; const LweKey *k; int32_t nn; g_n = nn; Torus32 r = lwePhase(s, k); (void)r; VERIF_REACH(); }
void h_lweSubMulTo(void) { LweSample *r; int32_t pp; const LweSample *s; const LweParams *p; HAVOC_GHOST(); lweSubMulTo(r, pp, s, p); VERIF_REACH(); }

/* ---- bounded stand-ins (labelled bounded, never counted as proved): concrete small n, loops unwound,
 * objects built by the harness.  They decide the clauses no installed back end decides under loop contracts:
 * the 32-bit multiplier congruence of lweSubMulTo's coordinate clause for arbitrary p and the IEEE product
 * p*p*variance of the two multiply variants. */
#ifndef VERIF_BN
#define VERIF_BN 3
#endif
static void b_setup(LweParams *pa, LweSample *r, LweSample *s, Torus32 *r0, int32_t *n_out) {
    int32_t n; __CPROVER_assume(n >= 1 && n <= VERIF_BN);
    *(int32_t *)&pa->n = n;
    r->a = malloc((size_t)n * sizeof(Torus32)); s->a = malloc((size_t)n * sizeof(Torus32));
    for (int32_t k = 0; k < n; k++) r0[k] = r->a[k];
    *n_out = n;
}
#ifdef VERIF_PCONST
#define B_P_INIT(p) p = (VERIF_PCONST)
#else
#define B_P_INIT(p) (void)0
#endif
void h_b_lweMulTo_coord(void) {
    LweParams pa; LweSample r, s; Torus32 r0[VERIF_BN]; int32_t n, p; B_P_INIT(p);
    b_setup(&pa, &r, &s, r0, &n);
    Torus32 b0 = r.b;
#ifdef B_SUB
    lweSubMulTo(&r, p, &s, &pa);
    for (int32_t k = 0; k < n; k++) __CPROVER_assert(r.a[k] == (Torus32)(r0[k] - p * s.a[k]), "lweSubMulTo: every coordinate a[k] == old a[k] - p*sample a[k] (mod 2^32)");
    __CPROVER_assert(r.b == (Torus32)(b0 - p * s.b), "lweSubMulTo: b == old b - p*sample b");
#else
    lweAddMulTo(&r, p, &s, &pa);
    for (int32_t k = 0; k < n; k++) __CPROVER_assert(r.a[k] == (Torus32)(r0[k] + p * s.a[k]), "lweAddMulTo: every coordinate a[k] == old a[k] + p*sample a[k] (mod 2^32)");
    __CPROVER_assert(r.b == (Torus32)(b0 + p * s.b), "lweAddMulTo: b == old b + p*sample b");
#endif
    VERIF_REACH();
}
void h_b_lweMulTo_var(void) {
    LweParams pa; LweSample r, s; Torus32 r0[VERIF_BN]; int32_t n, p; B_P_INIT(p);
    b_setup(&pa, &r, &s, r0, &n);
    __CPROVER_assume(VAR_OK(r.current_variance) && VAR_OK(s.current_variance));
    double v0 = r.current_variance;
#ifdef B_SUB
    lweSubMulTo(&r, p, &s, &pa);
#else
    lweAddMulTo(&r, p, &s, &pa);
#endif
    __CPROVER_assert(!P_SMALL(p) || r.current_variance == v0 + (double)(p * p) * s.current_variance, "variance annotation var1 + p^2*var2");
    VERIF_REACH();
}
