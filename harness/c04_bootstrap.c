/* C04: every exact step of bootstrapping between the input sample and the output sample.
 * Callees are monitor shims that only write ghost variables; n and N are symbolic and unbounded.
 * FFT=1 selects the *_FFT variants (TGswSampleFFT / LweBootstrappingKeyFFT), FFT=0 the coefficient-domain ones. */
#include "verif_prelude.h"
#include "c_boot.h"
#if FFT
#define SUF(x) x##_FFT
typedef TGswSampleFFT BKROW; typedef LweBootstrappingKeyFFT BKEY;
#define BK_ROWS(b) ((b)->bkFFT)
#else
#define SUF(x) x
typedef TGswSample BKROW; typedef LweBootstrappingKey BKEY;
#define BK_ROWS(b) ((b)->bk)
#endif
int32_t g_i, g_k, g_calls_watched, g_last_i, g_bad;
TLweSample *g_cur, *g_temp;
static int seq;                 /* call sequence counter */
static int live_allocs;         /* shim allocations not yet released */

/* ================= blind rotation ================= */
#ifdef H_BLINDROTATE
static const BKROW *g_bk; static const int32_t *g_bara; static TLweSample *g_accum; static const TGswParams *g_par; static int g_copied, g_deleted;
TLweSample *new_TLweSample(const TLweParams *params) { TLweSample *p = verif_alloc(sizeof(TLweSample)); g_temp = p; live_allocs++; return p; }
void delete_TLweSample(TLweSample *obj) { if (obj != g_temp) g_bad++; g_deleted++; live_allocs--; free(obj); }
void SUF(tfhe_MuxRotate)(TLweSample *result, const TLweSample *accum, const BKROW *bki, const int32_t barai, const TGswParams *bk_params) {
    if (accum != g_cur) g_bad++;                          /* must read the current accumulator */
    if (result == accum) g_bad++;                         /* must write the other buffer */
    if (!(result == g_accum || result == g_temp)) g_bad++;
    /* a zero exponent may be skipped (the code does) or rotated by X^0 = 1 (the same accumulator phase): both satisfy the property */
    if (bk_params != g_par) g_bad++;
    int32_t idx = (int32_t)(bki - g_bk);
    if (!(idx > g_last_i)) g_bad++;                       /* strictly increasing index order, never twice */
    if (barai != g_bara[idx]) g_bad++;                    /* exponent of index idx goes with key row idx */
    g_last_i = idx;
    if (idx == g_i) g_calls_watched++;
    g_cur = result;
}
void tLweCopy(TLweSample *result, const TLweSample *sample, const TLweParams *params) {
    if (result != g_accum || sample != g_cur || params != g_par->tlwe_params) g_bad++;
    g_cur = result; g_copied++;
}
#include "extracted.inc"
void h_blindRotate(void) {
    int32_t n; __CPROVER_assume(n >= 1 && n <= VERIF_NMAX);
    int32_t *bara = verif_alloc((size_t)n * sizeof(int32_t));
    BKROW *bk = verif_alloc((size_t)n * sizeof(BKROW));
    TLweSample *acc = verif_alloc(sizeof(TLweSample));
    TGswParams *P = verif_alloc(sizeof(TGswParams)); TLweParams *TP = verif_alloc(sizeof(TLweParams));
    int32_t N; __CPROVER_assume(N >= 1 && N <= VERIF_NMAX / 2); *(int32_t *)&TP->N = N; *(const TLweParams **)&P->tlwe_params = TP;
    int32_t gi; __CPROVER_assume(gi >= 0 && gi < n); g_i = gi;
    __CPROVER_assume(bara[gi] >= 0 && bara[gi] < 2 * N);       /* exponents come from the modulus switch to Z_2N */
    g_bk = bk; g_bara = bara; g_accum = acc; g_cur = acc; g_temp = 0; g_bad = 0; g_last_i = -1; g_calls_watched = 0; g_copied = 0; g_deleted = 0; g_par = P; live_allocs = 0; seq = 0;
    int32_t watched = bara[g_i];
    SUF(tfhe_blindRotate)(acc, bk, bara, n, P);
    __CPROVER_assert(g_bad == 0, "rotation protocol: each step reads the current accumulator, writes the other buffer, uses (bk+i, bara[i]) in index order");
    __CPROVER_assert(g_cur == acc, "the final accumulator value ends in accum (copied back when it sits in the temporary)");
    __CPROVER_assert(g_calls_watched >= 0 && g_calls_watched <= 1 && (watched != 0 ==> g_calls_watched == 1),
                     "index g_i is rotated exactly once when bara[g_i] != 0, and at most once (by X^0 = 1) when it is 0");
    __CPROVER_assert(g_deleted == 1 && live_allocs == 0, "temporary released exactly once");
    __CPROVER_assert(bara[g_i] == watched, "exponent array untouched");
    free(bara); free(bk); free(acc); free(P); free(TP);
    VERIF_REACH();
}
#endif

/* ================= CMux step ================= */
#ifdef H_MUXROTATE
static int s_mul, s_ext, s_add;
static TLweSample *m_r1, *m_r2, *m_r3; static const TLweSample *m_a1, *m_a3; static int32_t m_ai; static const BKROW *m_bki; static const TLweParams *m_p1, *m_p3; static const TGswParams *m_p2;
void tLweMulByXaiMinusOne(TLweSample *result, int32_t ai, const TLweSample *bk, const TLweParams *params) { m_r1 = result; m_ai = ai; m_a1 = bk; m_p1 = params; s_mul = ++seq; }
#if FFT
void tGswFFTExternMulToTLwe(TLweSample *accum, const TGswSampleFFT *gsw, const TGswParams *params) { m_r2 = accum; m_bki = gsw; m_p2 = params; s_ext = ++seq; }
#else
void tGswExternMulToTLwe(TLweSample *accum, const TGswSample *gsw, const TGswParams *params) { m_r2 = accum; m_bki = gsw; m_p2 = params; s_ext = ++seq; }
#endif
void tLweAddTo(TLweSample *result, const TLweSample *sample, const TLweParams *params) { m_r3 = result; m_a3 = sample; m_p3 = params; s_add = ++seq; }
#include "extracted.inc"
void h_MuxRotate(void) {
    TLweSample res, acc; BKROW bki; int32_t barai; TGswParams P; TLweParams tp; *(const TLweParams **)&P.tlwe_params = &tp;
    seq = 0; s_mul = s_ext = s_add = 0;
    SUF(tfhe_MuxRotate)(&res, &acc, &bki, barai, &P);
    __CPROVER_assert(s_mul == 1 && s_ext == 2 && s_add == 3 && seq == 3, "result = (X^a - 1)*acc; result = BK_i (x) result; result += acc -- in this order, once each");
    __CPROVER_assert(m_r1 == &res && m_ai == barai && m_a1 == &acc && m_p1 == &tp, "first step multiplies the accumulator by X^barai - 1 into result");
    __CPROVER_assert(m_r2 == &res && m_bki == &bki && m_p2 == &P, "external product in place on result with key row bki");
    __CPROVER_assert(m_r3 == &res && m_a3 == &acc && m_p3 == &tp, "accumulator added back");
    VERIF_REACH();
}
#endif

/* ================= blind rotate and extract ================= */
#ifdef H_BRE
static int s_xai, s_copy, s_triv, s_rot, s_ext, n_del_poly, n_del_tlwe, badargs;
static TorusPolynomial *g_tv; static TLweSample *g_acc;
static int32_t m_a; static const TorusPolynomial *m_src; static TorusPolynomial *m_dst;
static int32_t m_N;
TorusPolynomial *new_TorusPolynomial(const int32_t N) { TorusPolynomial *p = verif_alloc(sizeof(TorusPolynomial)); g_tv = p; m_N = N; live_allocs++; return p; }
void delete_TorusPolynomial(TorusPolynomial *obj) { if (obj != g_tv) badargs++; n_del_poly++; live_allocs--; free(obj); }
TLweSample *new_TLweSample(const TLweParams *params) { TLweSample *p = verif_alloc(sizeof(TLweSample)); g_acc = p; live_allocs++; return p; }
void delete_TLweSample(TLweSample *obj) { if (obj != g_acc) badargs++; n_del_tlwe++; live_allocs--; free(obj); }
static int32_t g_N2;
void torusPolynomialMulByXai(TorusPolynomial *result, int32_t a, const TorusPolynomial *source) {
    __CPROVER_assert(a >= 0 && a < g_N2, "precondition of torusPolynomialMulByXai: exponent in [0,2N)");
    __CPROVER_assert(result != source, "precondition of torusPolynomialMulByXai: result != source");
    m_dst = result; m_a = a; m_src = source; s_xai = ++seq; }
void torusPolynomialCopy(TorusPolynomial *result, const TorusPolynomial *sample) { m_dst = result; m_src = sample; s_copy = ++seq; }
static TLweSample *t_r; static const TorusPolynomial *t_mu; static const TLweParams *t_p;
void tLweNoiselessTrivial(TLweSample *result, const TorusPolynomial *mu, const TLweParams *params) { t_r = result; t_mu = mu; t_p = params; s_triv = ++seq; }
static TLweSample *r_acc; static const BKROW *r_bk; static const int32_t *r_bara; static int32_t r_n; static const TGswParams *r_p;
void SUF(tfhe_blindRotate)(TLweSample *accum, const BKROW *bk, const int32_t *bara, const int32_t n, const TGswParams *bk_params) { r_acc = accum; r_bk = bk; r_bara = bara; r_n = n; r_p = bk_params; s_rot = ++seq; }
static LweSample *e_r; static const TLweSample *e_x; static const LweParams *e_p; static const TLweParams *e_rp;
void tLweExtractLweSample(LweSample *result, const TLweSample *x, const LweParams *params, const TLweParams *rparams) { e_r = result; e_x = x; e_p = params; e_rp = rparams; s_ext = ++seq; }
#include "extracted.inc"
void h_blindRotateAndExtract(void) {
    LweSample res; TorusPolynomial v; BKROW *bk; int32_t in_barb; int32_t *bara; int32_t n; TGswParams P; TLweParams tp;
    int32_t N; __CPROVER_assume(N >= 1 && N <= VERIF_NMAX);
    *(int32_t *)&tp.N = N; *(const TLweParams **)&P.tlwe_params = &tp; g_N2 = 2 * N;
    __CPROVER_assume(in_barb >= 0 && in_barb < 2 * N);          /* established by the caller from the modulus-switch range contract */
    seq = 0; badargs = 0; live_allocs = 0; s_xai = s_copy = s_triv = s_rot = s_ext = n_del_poly = n_del_tlwe = 0;
    SUF(tfhe_blindRotateAndExtract)(&res, &v, bk, in_barb, bara, n, &P);
    __CPROVER_assert(m_N == N, "test polynomial scratch has N coefficients");
    if (in_barb != 0) {
        __CPROVER_assert(s_xai == 1 && s_copy == 0 && m_dst == g_tv && m_src == &v && m_a == 2 * N - in_barb, "accumulator starts as X^(2N-barb) * v");
    } else {
        __CPROVER_assert(s_copy == 1 && s_xai == 0 && m_dst == g_tv && m_src == &v, "barb == 0: accumulator starts as v");
    }
    __CPROVER_assert(s_triv == 2 && t_r == g_acc && t_mu == g_tv && t_p == &tp, "accumulator = noiseless trivial TLWE sample of the rotated test polynomial");
    __CPROVER_assert(s_rot == 3 && r_acc == g_acc && r_bk == bk && r_bara == bara && r_n == n && r_p == &P, "one blind rotation of the accumulator with (bk, bara, n)");
    __CPROVER_assert(s_ext == 4 && e_r == &res && e_x == g_acc && e_p == &tp.extracted_lweparams && e_rp == &tp, "coefficient 0 of the accumulator is extracted into result");
    __CPROVER_assert(seq == 4 && n_del_poly == 1 && n_del_tlwe == 1 && badargs == 0 && live_allocs == 0, "temporaries released; nothing else is called");
    VERIF_REACH();
}
#endif

/* ================= bootstrap without key switch ================= */
#ifdef H_WOKS
/* modulus switch as a function that is only known to be deterministic on the two watched phases (x->b and x->a[g_i]):
 * a two-point uninterpreted function; range = assumed contract (C13 range postcondition, enforced there for the enumerated Msize) */
int32_t g_wa_val; static int32_t g_wb_val; static Torus32 g_wa, g_wb;
static int32_t ms_badM, g_N2;
int32_t modSwitchFromTorus32(Torus32 phase, int32_t Msize) {
    if (Msize != g_N2) ms_badM++;
    int32_t r;
    __CPROVER_assume(r >= 0 && r < Msize);
    if (phase == g_wa) r = g_wa_val;
    if (phase == g_wb) r = g_wb_val;
    return r;
}
static TorusPolynomial *g_tv; static int32_t m_N; static int n_del, badargs;
TorusPolynomial *new_TorusPolynomial(const int32_t N) {
    TorusPolynomial *p = verif_alloc(sizeof(TorusPolynomial)); *(int32_t *)&p->N = N; p->coefsT = verif_alloc((size_t)N * sizeof(Torus32));
    g_tv = p; m_N = N; live_allocs++; return p; }
void delete_TorusPolynomial(TorusPolynomial *obj) { if (obj != g_tv) badargs++; n_del++; live_allocs--; free(obj->coefsT); free(obj); }
static int calls; static LweSample *c_res; static const TorusPolynomial *c_v; static const BKROW *c_bk; static int32_t c_barb, c_n, c_bara_gi, c_v_gk; static const TGswParams *c_p; static size_t c_bara_size;
void SUF(tfhe_blindRotateAndExtract)(LweSample *result, const TorusPolynomial *v, const BKROW *bk, const int32_t barb, const int32_t *bara, const int32_t n, const TGswParams *bk_params) {
    calls++; c_res = result; c_v = v; c_bk = bk; c_barb = barb; c_n = n; c_p = bk_params;
    c_bara_size = __CPROVER_OBJECT_SIZE(bara);
    c_bara_gi = bara[g_i]; c_v_gk = v->coefsT[g_k];
}
#include "extracted.inc"
void h_bootstrap_woKS(void) {
    int32_t n, N; __CPROVER_assume(n >= 1 && n <= VERIF_NMAX && N >= 1 && N <= VERIF_NMAX / 2);
    TGswParams P; TLweParams tp; LweParams ip; BKEY key; LweSample x, res; BKROW *rows;
    *(int32_t *)&tp.N = N; *(int32_t *)&ip.n = n;
    *(const TGswParams **)&key.bk_params = &P; *(const TLweParams **)&key.accum_params = &tp; *(const LweParams **)&key.in_out_params = &ip;
    BK_ROWS(&key) = rows;
    x.a = verif_alloc((size_t)n * sizeof(Torus32));
    int32_t gi, gk; __CPROVER_assume(gi >= 0 && gi < n && gk >= 0 && gk < N); g_i = gi; g_k = gk;
    Torus32 in_mu; g_N2 = 2 * N; ms_badM = 0; calls = 0; badargs = 0;
    Torus32 xa = x.a[g_i], xb = x.b;
    { int32_t va, vb; __CPROVER_assume(va >= 0 && va < 2 * N && vb >= 0 && vb < 2 * N && (xa == xb ==> va == vb));
      g_wa = xa; g_wb = xb; g_wa_val = va; g_wb_val = vb; }
    n_del = 0; live_allocs = 0;
    SUF(tfhe_bootstrap_woKS)(&res, &key, in_mu, &x);
    __CPROVER_assert(calls == 1 && c_res == &res && c_bk == rows && c_n == n && c_p == &P, "one blind-rotate-and-extract into result with the key rows, n and the key parameters");
    __CPROVER_assert(ms_badM == 0, "every modulus switch is to Z_2N");
    __CPROVER_assert(c_barb == g_wb_val, "barb = round(2N*b)");
    __CPROVER_assert(c_bara_gi == g_wa_val, "bara[i] = round(2N*a_i) for every i < n");
    __CPROVER_assert(c_bara_size >= (size_t)n * sizeof(int32_t), "scratch array for the rounded mask holds n entries");
    __CPROVER_assert(c_v == g_tv && m_N == N && c_v_gk == in_mu, "test polynomial has N coefficients, all equal to mu");
    __CPROVER_assert(n_del == 1 && badargs == 0 && live_allocs == 0, "test polynomial released");
    __CPROVER_assert(x.a[g_i] == xa && x.b == xb, "input sample untouched");
    free(x.a);
    VERIF_REACH();
}
#endif

/* ================= bootstrap = woKS + key switch ================= */
#ifdef H_BOOT
static LweSample *g_u; static const LweParams *u_par; static int n_new, n_del, s_woks, s_ks, badargs;
LweSample *new_LweSample(const LweParams *params) { LweSample *p = verif_alloc(sizeof(LweSample)); g_u = p; u_par = params; n_new++; live_allocs++; return p; }
void delete_LweSample(LweSample *obj) { if (obj != g_u) badargs++; n_del++; live_allocs--; free(obj); }
static LweSample *w_r; static const BKEY *w_bk; static Torus32 w_mu; static const LweSample *w_x;
void SUF(tfhe_bootstrap_woKS)(LweSample *result, const BKEY *bk, Torus32 mu, const LweSample *x) { w_r = result; w_bk = bk; w_mu = mu; w_x = x; s_woks = ++seq; }
static LweSample *k_r; static const LweKeySwitchKey *k_ks; static const LweSample *k_s;
void lweKeySwitch(LweSample *result, const LweKeySwitchKey *ks, const LweSample *sample) { k_r = result; k_ks = ks; k_s = sample; s_ks = ++seq; }
#include "extracted.inc"
void h_bootstrap(void) {
    BKEY key; TLweParams tp; LweKeySwitchKey ksk; LweSample x, res; Torus32 in_mu;
    *(const TLweParams **)&key.accum_params = &tp; *(LweKeySwitchKey **)&key.ks = &ksk;
    seq = 0; n_new = n_del = s_woks = s_ks = badargs = 0; live_allocs = 0;
    SUF(tfhe_bootstrap)(&res, &key, in_mu, &x);
    __CPROVER_assert(n_new == 1 && u_par == &tp.extracted_lweparams, "intermediate sample has the extracted dimension k*N");
    __CPROVER_assert(s_woks == 1 && w_r == g_u && w_bk == &key && w_mu == in_mu && w_x == &x, "bootstrap without key switch into the intermediate sample with the same mu and input");
    __CPROVER_assert(s_ks == 2 && k_r == &res && k_ks == &ksk && k_s == g_u, "then one key switch of the intermediate sample into result with the key's own key-switching key");
    __CPROVER_assert(seq == 2 && n_del == 1 && badargs == 0 && live_allocs == 0, "intermediate released; nothing else called");
    VERIF_REACH();
}
#endif

/* ================= FFT bootstrapping-key construction / destruction (init_/destroy_LweBootstrappingKeyFFT) =================
 * bounded stand-in in the shape (labelled bounded): small concrete dimensions with extracted dimension != ring degree (k = 2),
 * real LweBootstrappingKeyFFT constructor; allocation, copy and conversion callees are monitors.
 * Decides: the FFT key owns a key-switching key of its OWN (never the coefficient-domain key's), with k*N rows (the extracted
 * dimension), a copy of every row (i,j,p); one FFT image per input coefficient; destruction releases exactly what it owns. */
#ifdef H_BKFFT
#define B_n 2
#define B_N 2
#define B_K 2
#define B_T 2
#define B_BB 1
static int n_newks, n_copy, n_conv, n_newfft, n_delks, n_delfft, badargs; static LweKeySwitchKey *own_ks; static TGswSampleFFT *own_fft;
static int32_t ks_n, ks_t, ks_bb; static const LweParams *ks_par; static int seen[B_K * B_N][B_T][1 << B_BB];
static LweKeySwitchKey src_ks; static const LweBootstrappingKey *g_bksrc; static int convseen[B_n];
static LweSample rowsA[B_K * B_N * B_T * (1 << B_BB)], rowsB[B_K * B_N * B_T * (1 << B_BB)];
static LweSample *l1A[B_K * B_N * B_T], *l1B[B_K * B_N * B_T]; static LweSample **l0A[B_K * B_N], **l0B[B_K * B_N];
static void build_table(LweKeySwitchKey *k, LweSample *rows, LweSample **l1, LweSample ***l0, int32_t n, int32_t t, int32_t bb) {
    k->n = n; k->t = t; k->basebit = bb; k->base = 1 << bb; k->ks0_raw = rows; k->ks1_raw = l1; k->ks = l0;
    for (int p = 0; p < n * t; p++) l1[p] = rows + (1 << bb) * p;
    for (int p = 0; p < n; p++) l0[p] = l1 + t * p;
}
LweKeySwitchKey *new_LweKeySwitchKey(int32_t n, int32_t t, int32_t basebit, const LweParams *out_params) {
    n_newks++; ks_n = n; ks_t = t; ks_bb = basebit; ks_par = out_params;
    LweKeySwitchKey *k = verif_alloc(sizeof(LweKeySwitchKey)); own_ks = k;
    if (n <= B_K * B_N && t <= B_T && basebit <= B_BB) build_table(k, rowsB, l1B, l0B, n, t, basebit); else badargs++;
    return k;
}
void delete_LweKeySwitchKey(LweKeySwitchKey *obj) { n_delks++; if (obj != own_ks) badargs++; else free(obj); }
void lweCopy(LweSample *result, const LweSample *sample, const LweParams *params) {
    n_copy++;
    long d = result - rowsB, s = sample - rowsA;
    if (d != s || d < 0 || d >= B_K * B_N * B_T * (1 << B_BB) || params != ks_par) { badargs++; return; }
    seen[d / (B_T * (1 << B_BB))][(d / (1 << B_BB)) % B_T][d % (1 << B_BB)]++;
}
TGswSampleFFT *new_TGswSampleFFT_array(int32_t nbelts, const TGswParams *params) { n_newfft++; if (nbelts != B_n) badargs++; own_fft = verif_alloc((size_t)B_n * sizeof(TGswSampleFFT)); return own_fft; }
void delete_TGswSampleFFT_array(int32_t nbelts, TGswSampleFFT *obj) { n_delfft++; if (obj != own_fft || nbelts != B_n) badargs++; else free(obj); }
void tGswToFFTConvert(TGswSampleFFT *result, const TGswSample *source, const TGswParams *params) {
    n_conv++; long i = result - own_fft; if (i < 0 || i >= B_n || source != &g_bksrc->bk[i]) badargs++; else convseen[i]++; }
#include "extracted.inc"
void h_b_bkfft(void) {
    LweParams ip; *(int32_t *)&ip.n = B_n; TLweParams tp; *(int32_t *)&tp.N = B_N; *(int32_t *)&tp.k = B_K; *(int32_t *)&tp.extracted_lweparams.n = B_K * B_N;
    TGswParams gp; *(const TLweParams **)&gp.tlwe_params = &tp;
    build_table(&src_ks, rowsA, l1A, l0A, B_K * B_N, B_T, B_BB);
    TGswSample bkrows[B_n];
    LweBootstrappingKey bk; *(const LweParams **)&bk.in_out_params = &ip; *(const TGswParams **)&bk.bk_params = &gp; *(const TLweParams **)&bk.accum_params = &tp;
    *(const LweParams **)&bk.extract_params = &tp.extracted_lweparams; bk.bk = bkrows; bk.ks = &src_ks; g_bksrc = &bk;
    n_newks = n_copy = n_conv = n_newfft = n_delks = n_delfft = badargs = 0;
    for (int i = 0; i < B_K * B_N; i++) for (int j = 0; j < B_T; j++) for (int p = 0; p < (1 << B_BB); p++) seen[i][j][p] = 0;
    for (int i = 0; i < B_n; i++) convseen[i] = 0;
    LweBootstrappingKeyFFT obj;
    init_LweBootstrappingKeyFFT(&obj, &bk);
    __CPROVER_assert(n_newks == 1 && ks_n == B_K * B_N && ks_t == B_T && ks_bb == B_BB && ks_par == &ip, "the FFT key gets a key-switching key of its own with k*N rows (extracted dimension), same t, basebit, output parameters");
    __CPROVER_assert(obj.ks == own_ks && obj.ks != &src_ks, "the FFT key owns its key-switching key; it does not share the coefficient-domain key's (life cycles are independent)");
    int all = 1; for (int i = 0; i < B_K * B_N; i++) for (int j = 0; j < B_T; j++) for (int p = 0; p < (1 << B_BB); p++) all &= (seen[i][j][p] == 1);
    __CPROVER_assert(all && n_copy == B_K * B_N * B_T * (1 << B_BB), "every key-switching row (i,j,p) is copied exactly once into the same position");
    __CPROVER_assert(n_newfft == 1 && obj.bkFFT == own_fft && n_conv == B_n && convseen[0] == 1 && convseen[B_n - 1] == 1, "one FFT image per input key coefficient, each converted once into its own slot");
    __CPROVER_assert(obj.in_out_params == &ip && obj.bk_params == &gp && obj.accum_params == &tp && obj.extract_params == &tp.extracted_lweparams, "parameter pointers carried over");
    __CPROVER_assert(badargs == 0, "no other allocation / copy / conversion");
    destroy_LweBootstrappingKeyFFT(&obj);
    __CPROVER_assert(n_delks == 1 && n_delfft == 1 && badargs == 0, "destruction releases the owned key-switching key and the FFT rows, each once");
    VERIF_REACH();
}
#endif

#ifdef H_BKFFT_U
/* init_LweBootstrappingKeyFFT / destroy_, UNBOUNDED in the input dimension n and in the extracted dimension M = k*N (loop contracts on all four
 * loops), (t, basebit) enumerated, watched symbolic indices g_i < M (key-switching rows) and g_c < n (FFT rows): the FFT key gets a key-switching
 * key OF ITS OWN with M rows (the extracted dimension, not N), same t / basebit / output parameters; for index g_i every row (j, p) is copied exactly
 * once from the same position of the coefficient-domain key; for every other index every copy pairs equal positions; one FFT image per input
 * coefficient, slot g_c converted exactly once from bk->bk[g_c]; parameter pointers carried over; destruction releases both owned objects once. */
#define T_ VERIF_T
#define BB_ VERIF_BASEBIT
#define BASE_ (1 << VERIF_BASEBIT)
#include "bkf.inc"        /* generated: BKF_BLOCKS(M) = M(0)..M(t-1); BKF_ROWS(M) = M(j,p) for j < t, p < base; BKF_MASK(j,p) */
int32_t u_bad, u_cpB, u_conv, u_convW, g_i, g_c; uint64_t u_hit;
#include "c_bkfft.h"
static LweSample *srcA[T_], *srcB[T_], *dstA[T_], *dstB[T_];
static const LweParams *x_io; static const TGswParams *x_gp; static const LweBootstrappingKey *x_bk;
static int n_newks, n_newfft, n_delks, n_delfft; static int32_t x_M, x_n; static LweKeySwitchKey nk; static TGswSampleFFT *own_fft;
LweKeySwitchKey *new_LweKeySwitchKey(int32_t n, int32_t t, int32_t basebit, const LweParams *out_params) {
    n_newks++; if (n != x_M || t != T_ || basebit != BB_ || out_params != x_io) u_bad++; return &nk; }
void delete_LweKeySwitchKey(LweKeySwitchKey *obj) { n_delks++; if (obj != &nk) u_bad++; }
#define CP_B(j, p) if (result == &dstB[j][p]) { found = 1; u_cpB++; if (sample != &srcB[j][p] || ((u_hit >> ((j) * BASE_ + (p))) & 1u)) u_bad++; u_hit |= (uint64_t)1 << ((j) * BASE_ + (p)); }
#define CP_A(j, p) if (result == &dstA[j][p]) { found = 1; if (sample != &srcA[j][p]) u_bad++; }
void lweCopy(LweSample *result, const LweSample *sample, const LweParams *params) {
    int found = 0;
    BKF_ROWS(CP_B)
    BKF_ROWS(CP_A)
    if (!found || params != x_io) u_bad++; }
TGswSampleFFT *new_TGswSampleFFT_array(int32_t nbelts, const TGswParams *params) { n_newfft++; if (nbelts != x_n || params != x_gp) u_bad++; own_fft = verif_alloc((size_t)x_n * sizeof(TGswSampleFFT)); return own_fft; }
void delete_TGswSampleFFT_array(int32_t nbelts, TGswSampleFFT *obj) { n_delfft++; if (obj != own_fft || nbelts != x_n) u_bad++; else free(obj); }
void tGswToFFTConvert(TGswSampleFFT *result, const TGswSample *source, const TGswParams *params) {
    if (result != own_fft + u_conv || source != x_bk->bk + u_conv || params != x_gp) u_bad++;       /* slot i from key coefficient i, in order */
    if (u_conv == g_c) u_convW++;
    u_conv++; }
#include "extracted.inc"
void h_bkfft_unbounded(void) {
    int32_t n, M; __CPROVER_assume(n >= 1 && n <= VERIF_NMAX && M >= 1 && M <= VERIF_NMAX); x_n = n; x_M = M;
#define BF_ALLOC(j) srcA[j] = verif_alloc((size_t)BASE_ * sizeof(LweSample)); srcB[j] = verif_alloc((size_t)BASE_ * sizeof(LweSample)); dstA[j] = verif_alloc((size_t)BASE_ * sizeof(LweSample)); dstB[j] = verif_alloc((size_t)BASE_ * sizeof(LweSample));
    BKF_BLOCKS(BF_ALLOC)
    LweSample ***st = verif_alloc((size_t)M * sizeof(LweSample **)), ***dt = verif_alloc((size_t)M * sizeof(LweSample **));
    __CPROVER_array_set(st, (LweSample **)srcA); __CPROVER_array_set(dt, (LweSample **)dstA);
    int32_t gi, gc; __CPROVER_assume(gi >= 0 && gi < M && gc >= 0 && gc < n); g_i = gi; g_c = gc; st[gi] = (LweSample **)srcB; dt[gi] = (LweSample **)dstB;
    LweParams ip; *(int32_t *)&ip.n = n; TLweParams tp; *(int32_t *)&tp.extracted_lweparams.n = M; TGswParams gp; *(const TLweParams **)&gp.tlwe_params = &tp;
    LweKeySwitchKey sks; sks.n = M; sks.t = T_; sks.basebit = BB_; sks.base = BASE_; sks.out_params = &ip; sks.ks = st;
    nk.n = M; nk.t = T_; nk.basebit = BB_; nk.base = BASE_; nk.out_params = &ip; nk.ks = dt;
    LweBootstrappingKey bk; *(const LweParams **)&bk.in_out_params = &ip; *(const TGswParams **)&bk.bk_params = &gp; *(const TLweParams **)&bk.accum_params = &tp;
    *(const LweParams **)&bk.extract_params = &tp.extracted_lweparams; bk.bk = verif_alloc((size_t)n * sizeof(TGswSample)); bk.ks = &sks;
    x_io = &ip; x_gp = &gp; x_bk = &bk; u_bad = u_cpB = u_conv = u_convW = 0; u_hit = 0; n_newks = n_newfft = n_delks = n_delfft = 0;
    LweBootstrappingKeyFFT obj;
    init_LweBootstrappingKeyFFT(&obj, &bk);
    __CPROVER_assert(n_newks == 1 && n_newfft == 1 && u_bad == 0, "one key-switching key of the EXTRACTED dimension (k*N rows, same t, basebit, output parameters) and one array of n FFT rows are allocated; every copy pairs equal positions; every conversion goes from key coefficient i to slot i");
    __CPROVER_assert(obj.ks == &nk && obj.ks != &sks && obj.bkFFT == own_fft, "the FFT key owns its key-switching key (not the coefficient-domain key's) and its FFT rows");
    __CPROVER_assert(u_cpB == T_ * BASE_ && u_hit == BKF_MASK(T_, 0), "index g_i: every row (j, p) copied exactly once, by no other iteration");
    __CPROVER_assert(u_conv == n && u_convW == 1, "one FFT image per input key coefficient; slot g_c converted exactly once");
    __CPROVER_assert(obj.in_out_params == &ip && obj.bk_params == &gp && obj.accum_params == &tp && obj.extract_params == &tp.extracted_lweparams, "parameter pointers carried over");
    destroy_LweBootstrappingKeyFFT(&obj);
    __CPROVER_assert(n_delks == 1 && n_delfft == 1 && u_bad == 0, "destruction releases the owned key-switching key and the FFT rows, each once");
#define BF_FREE(j) free(srcA[j]); free(srcB[j]); free(dstA[j]); free(dstB[j]);
    BKF_BLOCKS(BF_FREE)
    free(st); free(dt); free(bk.bk);
    VERIF_REACH();
}
#endif
