/* C16: life cycle of the gate-bootstrapping API objects (tfhe_gate_bootstrapping.cpp): key sets and ciphertext arrays.
 * The delete_* / new_* functions of the component types are monitors here (their own life cycles are proved in c16_alloc.c):
 * every owned component is released exactly once, with its own pointer, optional components only when present, the key-set object itself
 * is freed exactly once (malloc'ed here; --memory-leak-check and the pointer checks decide leak / double free / use after free);
 * ciphertexts take their dimension from the parameter set's LWE parameters and arrays are released with the count given. */
#include "verif_prelude.h"
static int n_fft, n_bk, n_tgsw, n_lwe; static const void *p_fft, *p_bk, *p_tgsw, *p_lwe; static int after_free_bad;
void delete_LweBootstrappingKeyFFT(LweBootstrappingKeyFFT *obj) { n_fft++; p_fft = obj; }
void delete_LweBootstrappingKey(LweBootstrappingKey *obj) { n_bk++; p_bk = obj; }
void delete_TGswKey(TGswKey *obj) { n_tgsw++; p_tgsw = obj; }
void delete_LweKey(LweKey *obj) { n_lwe++; p_lwe = obj; }
static int n_new, n_newa, n_del, n_dela; static const void *a_par, *a_obj; static int32_t a_cnt; static LweSample o_sample[2];
LweSample *new_LweSample(const LweParams *params) { n_new++; a_par = params; return o_sample; }
LweSample *new_LweSample_array(int32_t nbelts, const LweParams *params) { n_newa++; a_cnt = nbelts; a_par = params; return o_sample; }
void delete_LweSample(LweSample *obj) { n_del++; a_obj = obj; }
void delete_LweSample_array(int32_t nbelts, LweSample *obj) { n_dela++; a_cnt = nbelts; a_obj = obj; }
/* the three API structures have no user-declared destructor (static fact C16.static.keyset_dtors_implicit, decided on the AST each run):
 * the implicit destructor of a struct of pointers does nothing */
static void TFheGateBootstrappingSecretKeySet__dtor(TFheGateBootstrappingSecretKeySet *p) {}
static void TFheGateBootstrappingCloudKeySet__dtor(TFheGateBootstrappingCloudKeySet *p) {}
static void TFheGateBootstrappingParameterSet__dtor(TFheGateBootstrappingParameterSet *p) {}
#include "extracted.inc"
void h_keyset_lifecycle(void) {
    static char d_lwe, d_tgsw, d_bk, d_fft; static TFheGateBootstrappingParameterSet ps; static LweParams io; *(const LweParams **)&ps.in_out_params = &io;
    bool has_bk, has_fft;
    TFheGateBootstrappingSecretKeySet *sk = verif_alloc(sizeof(TFheGateBootstrappingSecretKeySet));
    sk->params = &ps; sk->lwe_key = (const LweKey *)&d_lwe; sk->tgsw_key = (const TGswKey *)&d_tgsw; *(const TFheGateBootstrappingParameterSet **)&sk->cloud.params = &ps;
    *(const LweBootstrappingKey **)&sk->cloud.bk = has_bk ? (const LweBootstrappingKey *)&d_bk : 0; *(const LweBootstrappingKeyFFT **)&sk->cloud.bkFFT = has_fft ? (const LweBootstrappingKeyFFT *)&d_fft : 0;
    n_fft = n_bk = n_tgsw = n_lwe = 0;
    delete_gate_bootstrapping_secret_keyset(sk);
    __CPROVER_assert(n_lwe == 1 && p_lwe == (const void *)&d_lwe && n_tgsw == 1 && p_tgsw == (const void *)&d_tgsw, "secret key set: the LWE key and the ring key are released exactly once each");
    __CPROVER_assert(n_bk == (has_bk ? 1 : 0) && (!has_bk || p_bk == (const void *)&d_bk) && n_fft == (has_fft ? 1 : 0) && (!has_fft || p_fft == (const void *)&d_fft),
                     "secret key set: the bootstrapping key and its FFT image are released exactly once each, and only when present");
    TFheGateBootstrappingCloudKeySet *ck = verif_alloc(sizeof(TFheGateBootstrappingCloudKeySet));
    *(const TFheGateBootstrappingParameterSet **)&ck->params = &ps;
    *(const LweBootstrappingKey **)&ck->bk = has_bk ? (const LweBootstrappingKey *)&d_bk : 0; *(const LweBootstrappingKeyFFT **)&ck->bkFFT = has_fft ? (const LweBootstrappingKeyFFT *)&d_fft : 0;
    n_fft = n_bk = n_tgsw = n_lwe = 0;
    delete_gate_bootstrapping_cloud_keyset(ck);
    __CPROVER_assert(n_lwe == 0 && n_tgsw == 0 && n_bk == (has_bk ? 1 : 0) && (!has_bk || p_bk == (const void *)&d_bk) && n_fft == (has_fft ? 1 : 0) && (!has_fft || p_fft == (const void *)&d_fft),
                     "cloud key set: the bootstrapping key and its FFT image are released exactly once each, only when present, and nothing else");
    TFheGateBootstrappingParameterSet *pp = verif_alloc(sizeof(TFheGateBootstrappingParameterSet));
    delete_gate_bootstrapping_parameters(pp);                    /* frees the object only: the component parameter objects belong to the garbage collector */
    /* ciphertexts */
    int32_t cnt; n_new = n_newa = n_del = n_dela = 0;
    LweSample *c = new_gate_bootstrapping_ciphertext(&ps);
    __CPROVER_assert(n_new == 1 && a_par == (const void *)&io && c == o_sample, "a ciphertext has the dimension of the parameter set's LWE parameters");
    LweSample *ca = new_gate_bootstrapping_ciphertext_array(cnt, &ps);
    __CPROVER_assert(n_newa == 1 && a_cnt == cnt && a_par == (const void *)&io && ca == o_sample, "a ciphertext array has the requested length and the parameter set's LWE parameters");
    delete_gate_bootstrapping_ciphertext(c);
    __CPROVER_assert(n_del == 1 && a_obj == (const void *)c, "ciphertext released once");
    a_cnt = 0; delete_gate_bootstrapping_ciphertext_array(cnt, ca);
    __CPROVER_assert(n_dela == 1 && a_cnt == cnt && a_obj == (const void *)ca, "ciphertext array released once, with the length given");
    VERIF_REACH();
}
