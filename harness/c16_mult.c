/* C16/C11: memory safety and frames of the schoolbook kernel and of the recursive Karatsuba kernel, every size (unbounded). */
#include "verif_prelude.h"
#include "c_mult.h"
#ifdef KARA_CALLEE
void torusPolynomialMultNaive_plain_aux(Torus32 *__restrict result, const int32_t *__restrict poly1, const Torus32 *__restrict poly2, const int32_t N) CONTRACT_torusPolynomialMultNaive_plain_aux;
#endif
int32_t g_k, g_N;
#ifdef KW_CALLEE
void Karatsuba_aux(Torus32 *R, const int32_t *A, const Torus32 *B, const int32_t size, const char *buf) CONTRACT_Karatsuba_aux;
#endif
#include "extracted.inc"
void h_plain(void) { Torus32 *r; const int32_t *a; const Torus32 *b; int32_t N; torusPolynomialMultNaive_plain_aux(r, a, b, N); VERIF_REACH(); }
void h_kara(void) { Torus32 *R; const int32_t *A; const Torus32 *B; int32_t size; const char *buf; Karatsuba_aux(R, A, B, size, buf); VERIF_REACH(); }
void h_naive_aux(void) { Torus32 *r; const int32_t *a; const Torus32 *b; int32_t N; torusPolynomialMultNaive_aux(r, a, b, N); VERIF_REACH(); }
#ifdef KW_CALLEE
void h_kwrap(void) { TorusPolynomial *r; const IntPolynomial *a; const TorusPolynomial *b; int32_t nn; g_N = nn; KWFN(r, a, b); VERIF_REACH(); }
#endif
