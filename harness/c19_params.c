/* C19: default parameter selection -- all 2^32 values of lambda symbolic; the whole construction chain is the real code
 * (selector, the two static constructors, new_/alloc_/init_ wrappers, the four C++ constructors). */
#include "verif_prelude.h"
#include <math.h>
static int32_t g_lambda; static int g_died;
/* no-return stub (assumed contract: it aborts before anything else is observable) */
void die_dramatically(const char *message) {
    g_died = 1;
    __CPROVER_assert(g_lambda <= 0 || g_lambda > 128, "the selector aborts only for lambda <= 0 or lambda > 128");
    if (g_lambda <= 0) __CPROVER_assert(0, "VERIF_REACH_CANARY (abort path, lambda <= 0)");
    if (g_lambda > 128) __CPROVER_assert(0, "VERIF_REACH_CANARY (abort path, lambda > 128)");
    __CPROVER_assume(0);
}
/* assumed contract of libm pow on the two calls the library makes: exact powers of two */
double pow(double x, double y) {
    if (x == 2.0 && y == -15.0) return 0x1p-15;
    if (x == 2.0 && y == -25.0) return 0x1p-25;
    double r; return r;
}
static int n_registered;
#define TfheGarbageCollector__register_param(p) (n_registered++, (void)(p))
#include "extracted.inc"
void h_params(void) {
    int32_t in_lambda; g_died = 0; n_registered = 0;
    /* history independence: an arbitrary earlier request (any in-range lambda) precedes the one that is checked */
    int32_t in_first; int in_has_first;
    if (in_has_first) { __CPROVER_assume(in_first >= 1 && in_first <= 128); g_lambda = in_first; (void)new_default_gate_bootstrapping_parameters(in_first); n_registered = 0; }
    g_lambda = in_lambda;
    TFheGateBootstrappingParameterSet *P = new_default_gate_bootstrapping_parameters(in_lambda);
    __CPROVER_assert(in_lambda >= 1 && in_lambda <= 128 && !g_died, "normal return only for 1 <= lambda <= 128");
    const LweParams *in = P->in_out_params; const TGswParams *g = P->tgsw_params; const TLweParams *t = g->tlwe_params;
    /* expected values transcribed from the property statement and the README table, not from the code */
    if (in_lambda >= 81) {
        __CPROVER_assert(in->n == 630 && in->alpha_min == 0x1p-15, "128-bit set: n = 630, key-switching noise stdev 2^-15");
        __CPROVER_assert(t->N == 1024 && t->k == 1 && t->alpha_min == 0x1p-25, "128-bit set: N = 1024, k = 1, bootstrapping-key noise stdev 2^-25");
        __CPROVER_assert(g->l == 3 && g->Bgbit == 7 && P->ks_t == 8 && P->ks_basebit == 2, "128-bit set: l = 3, Bgbit = 7, t = 8, basebit = 2");
    } else {
        __CPROVER_assert(in->n == 500 && in->alpha_min == 2.44e-5, "80-bit set: n = 500, stdev 2.44e-5");
        __CPROVER_assert(t->N == 1024 && t->k == 1 && t->alpha_min == 7.18e-9, "80-bit set: N = 1024, k = 1, stdev 7.18e-9");
        __CPROVER_assert(g->l == 2 && g->Bgbit == 10 && P->ks_t == 8 && P->ks_basebit == 2, "80-bit set: l = 2, Bgbit = 10, t = 8, basebit = 2");
    }
    /* "never weaker than requested": the 80-bit set is returned only when lambda <= 80 (the case split above) */
    /* structural constraints the algorithms assume */
    __CPROVER_assert(t->N == 1024, "N is the degree the FFT processors are built for");
    __CPROVER_assert(g->l * g->Bgbit <= 32 && g->Bgbit <= 30 && g->l >= 1, "l*Bgbit <= 32");
    __CPROVER_assert(P->ks_t * P->ks_basebit <= 31 && P->ks_t >= 1 && P->ks_basebit >= 1, "t*basebit <= 31");
    __CPROVER_assert(t->extracted_lweparams.n == t->k * t->N, "extracted dimension k*N");
    __CPROVER_assert(t->extracted_lweparams.alpha_min == t->alpha_min && in->alpha_max == 0.012467 && t->alpha_max == 0.012467, "noise bounds carried over");
    /* derived fields (C12 constructor contract) */
    __CPROVER_assert(g->Bg == (1 << g->Bgbit) && g->halfBg == g->Bg / 2 && g->maskMod == (uint32_t)g->Bg - 1u && g->kpl == (t->k + 1) * g->l, "Bg, halfBg, maskMod, kpl");
    __CPROVER_assert(n_registered == 3, "the three parameter objects are handed to the collector");
    VERIF_REACH();
}
